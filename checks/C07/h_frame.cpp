// C07/H1 — frame layout computed by FuncFrame::init + FuncFrame::finalize (core/func.cpp).
// The calling convention record comes from the real CallConv::init (x86func.cpp / a64func.cpp); everything a user or the
// register allocator can set on the frame afterwards is symbolic: dirty masks of all four groups, local/call stack size
// (0..64 KiB) and alignment (1..64), attributes (preserved FP, calls, AVX, AVX-512, ...), the stack-argument base register,
// the red zone reset, the used-register masks and the stack-argument size FuncDetail hands over.
// Asserted: the areas the prolog/epilog emitters rely on are ordered, pairwise disjoint and aligned, the save areas have
// exactly the size the emitters store into, the body SP has the promised alignment, and the stack-argument offsets.
#include <asmjit/core.h>
#include "verif.h"
using namespace asmjit;

static inline uint32_t popcnt32(uint32_t x) { return (uint32_t)__builtin_popcount(x); }
static inline uint32_t align_up_u32(uint32_t x, uint32_t a) { return (x + a - 1) & ~(a - 1); }

enum : uint32_t { kX86Bp = 5, kX86Sp = 4, kA64Fp = 29, kA64Lr = 30, kA64Sp = 31 };

template<Arch arch, bool kKnownC07A = false>
static void check_frame(Platform plat, PlatformABI abi, CallConvId ccid) {
  Environment env(arch, SubArch::kUnknown, Vendor::kUnknown, plat, abi);
  constexpr bool is_a64 = arch == Arch::kAArch64;
  constexpr bool is_x86_32 = arch == Arch::kX86;

  FuncDetail fd;
  Error e_cc = fd._call_conv.init(ccid, env);
  V_ASSERT(e_cc == Error::kOk, "calling convention id is accepted for the architecture");
  const CallConv& cc = fd._call_conv;
  // What FuncDetail::init leaves behind and FuncFrame::init reads: used registers (a subset of the registers the convention
  // passes arguments in) and the size of the stack argument area.
  for (RegGroup g : Support::enumerate(RegGroup::kMaxVirt)) fd._used_regs[g] = nondet_u32() & cc._passed_regs[g];
  fd._arg_stack_size = nondet_u32() & 0xFFFCu;

  FuncFrame f;
  Error e_init = f.init(fd);
  V_ASSERT(e_init == Error::kOk, "frame init accepted");

  uint32_t R = cc.save_restore_reg_size(RegGroup::kGp);
  uint32_t RA = is_a64 ? 0u : R;       // return address pushed by CALL (x86) or kept in LR (AArch64)
  uint32_t N = cc.natural_stack_alignment();
  uint32_t fp_id = is_a64 ? kA64Fp : kX86Bp, sp_id = is_a64 ? kA64Sp : kX86Sp;
  V_ASSERT(R == (is_x86_32 ? 4u : 8u), "GP save slot is the native register size");
  V_ASSERT((cc.preserved_regs(RegGroup::kGp) >> fp_id) & 1, "the frame pointer is callee-saved in every convention");
  V_ASSERT(((f.preserved_regs(RegGroup::kGp) >> sp_id) & 1) == 0, "SP is never in the saved set");
  V_ASSERT(f.callee_stack_cleanup() == (cc.has_flag(CallConvFlags::kCalleePopsStack) ? fd._arg_stack_size : 0u), "callee cleanup = stack argument size iff callee-pops");

  // ---- configuration by the user / the register allocator
  for (RegGroup g : Support::enumerate(RegGroup::kMaxVirt)) f.add_dirty_regs(g, nondet_u32());
  uint32_t lsz = nondet_u32() & 0x1FFFF, csz = nondet_u32() & 0x1FFFF;
  V_ASSUME(lsz <= 65536 && csz <= 65536);
  f.set_local_stack_size(lsz); f.set_call_stack_size(csz);
  uint32_t la = 1u << (nondet_u8() % 7), ca = 1u << (nondet_u8() % 7);
  f.set_local_stack_alignment(la); f.set_call_stack_alignment(ca);
  constexpr FuncAttributes kUserAttrs = FuncAttributes::kHasVarArgs | FuncAttributes::kHasPreservedFP | FuncAttributes::kHasFuncCalls |
    FuncAttributes::kIndirectBranchProtection | FuncAttributes::kX86_AVXEnabled | FuncAttributes::kX86_AVX512Enabled |
    FuncAttributes::kX86_MMXCleanup | FuncAttributes::kX86_AVXCleanup | FuncAttributes::kX86_AVXAutoCleanup;
  f.add_attributes(FuncAttributes(nondet_u32()) & kUserAttrs);
  if (nondet_bool()) f.reset_red_zone();
  uint32_t user_sa = Reg::kIdBad;
  if (nondet_bool()) {  // FuncArgsContext::mark_stack_args_reg: any allocable GP register
    user_sa = nondet_u8() & (is_a64 ? 31 : is_x86_32 ? 7 : 15);
    V_ASSUME(user_sa != sp_id);
    f.set_sa_reg_id(user_sa);
  }
  uint32_t dirty_gp_before = f.dirty_regs(RegGroup::kGp);

  Error e = f.finalize();
  verif_observe(uint32_t(e));
  V_ASSERT(e == Error::kOk, "finalize accepts every configuration");

  uint32_t A = f.final_stack_alignment();
  bool has_fp = f.has_preserved_fp(), has_da = f.has_dynamic_alignment(), calls = f.has_func_calls();
  uint32_t C = f.call_stack_size(), L0 = f.local_stack_offset(), L = f.local_stack_size();
  uint32_t X0 = f.extra_reg_save_offset(), X = f.extra_reg_save_size();
  uint32_t S = f.stack_adjustment(), P = f.push_pop_save_size(), P0 = f.push_pop_save_offset();
  verif_observe(A); verif_observe(L0); verif_observe(X0); verif_observe(X); verif_observe(S); verif_observe(P); verif_observe(P0);
  verif_observe(f.da_offset()); verif_observe(f.sa_offset_from_sp()); verif_observe(f.sa_offset_from_sa()); verif_observe(f.final_stack_size());
  verif_observe(f.sa_reg_id()); verif_observe(uint32_t(f.attributes()));

  V_ASSERT(A == Support::max(N, la, ca), "final alignment = max(natural, call, local)");
  V_ASSERT(has_da == (A >= f.min_dynamic_alignment()) && f.min_dynamic_alignment() > N, "dynamic alignment iff the request exceeds what the entry alignment gives");

  // ---- registers made dirty by finalize, stack-argument base register
  uint32_t dirty_gp = f.dirty_regs(RegGroup::kGp);
  if (has_fp) V_ASSERT((dirty_gp >> fp_id) & 1, "preserved FP: FP is saved");
  if (has_fp && is_a64) V_ASSERT((dirty_gp >> kA64Lr) & 1, "preserved FP on AArch64: LR is saved with it");
  uint32_t sa = f.sa_reg_id();
  V_ASSERT(f._sp_reg_id == sp_id, "sp register id");
  if (user_sa != Reg::kIdBad) V_ASSERT(sa == user_sa, "a base register chosen for stack arguments is kept");
  else V_ASSERT(sa == (has_da ? fp_id : sp_id), "stack arguments are addressed from SP, or from FP when SP is realigned");
  if (sa != sp_id) V_ASSERT((dirty_gp >> sa) & 1, "a stack-argument base register other than SP is marked dirty");
  V_ASSERT((dirty_gp & ~(dirty_gp_before | (1u << fp_id) | (is_a64 ? 1u << kA64Lr : 0u) | (sa != sp_id ? 1u << sa : 0u))) == 0 && (dirty_gp & dirty_gp_before) == dirty_gp_before, "finalize dirties nothing else");

  // ---- save area sizes: exactly what the prolog stores
  uint32_t n_gp = popcnt32(f.saved_regs(RegGroup::kGp)), n_vec = popcnt32(f.saved_regs(RegGroup::kVec));
  uint32_t n_g2 = popcnt32(f.saved_regs(RegGroup(2))), n_g3 = popcnt32(f.saved_regs(RegGroup(3)));
  uint32_t vec_slot = cc.save_restore_reg_size(RegGroup::kVec);
  if (!is_a64) {
    V_ASSERT(P == n_gp * R, "x86: push-pop area = one slot per saved GP register");
    V_ASSERT(X == n_vec * 16 + n_g2 * 8 + n_g3 * 8, "x86: extra save area = 16 bytes per XMM, 8 per K, 8 per MM register");
    V_ASSERT(vec_slot == 16, "x86: vector save slot is 16 bytes");
  } else {
    V_ASSERT(P == align_up_u32(n_gp * 8, 16) + align_up_u32(n_vec * vec_slot, 16), "a64: push-pop area = GP pairs plus vector slots, 16-byte granules");
    V_ASSERT(X == 0, "a64: no extra save area");
  }

  // ---- ordering and disjointness, offsets relative to SP inside the body (low to high)
  V_ASSERT(L0 >= C, "locals start above the call area");
  V_ASSERT(L0 % A == 0, "local area offset is a multiple of the final alignment");
  V_ASSERT(L0 - C < A, "no more than alignment padding between call area and locals");
  V_ASSERT(X0 >= L0 + L, "extra register save area starts above the locals");
  uint32_t top = X0 + X;
  if (X && A >= vec_slot) {
    V_ASSERT(f.has_aligned_vec_save_restore() && X0 % vec_slot == 0, "vector save area aligned whenever SP alignment allows aligned moves");
  }
  if (f.has_aligned_vec_save_restore()) V_ASSERT(X != 0 && A >= vec_slot && X0 % vec_slot == 0, "aligned vector save attribute only with an aligned save area");
  if (has_da && !has_fp) {
    V_ASSERT(f.has_da_offset() && f.da_offset() >= top, "DA slot above the extra save area");
    top = f.da_offset() + R;
  } else {
    V_ASSERT(!f.has_da_offset(), "no DA slot unless SP is realigned without a frame pointer");
  }
  V_ASSERT(S >= top, "stack adjustment covers call area, locals, extra saves and DA slot");
  V_ASSERT(P0 >= top && P0 <= S, "push-pop area begins above every other area");
  V_ASSERT(S < top + 2 * A + R, "stack adjustment adds no more than alignment padding");

  bool nonempty = S != 0 || calls || RA == 0;
  if (!has_da) {
    // body SP = entry SP - P - S; the return address (x86) sits at [S+P, S+P+RA), stack arguments start right above it.
    V_ASSERT(P0 == S, "no realignment: push-pop area is adjacent to the adjusted stack");
    V_ASSERT(f.final_stack_size() == S + P, "final stack size = adjustment plus push-pop area");
    V_ASSERT(f.sa_offset_from_sp() == S + P + RA, "stack arguments relative to SP: above adjustment, pushes and return address");
    // The caller guarantees (entry SP + RA) % N == 0 only; the promised alignment must follow from that.
    if (nonempty) {
      V_ASSERT((S + P + RA) % A == 0, "body SP is aligned to the final alignment given an entry SP aligned to it");
#if KF_C07A  // known finding C07A (x86-32: alignment 8 promised, entry alignment 4, no realignment below 16): proved separately
      if (kKnownC07A) V_ASSUME(A > N); else V_ASSUME(A <= N);
#endif
      V_ASSERT(A <= N, "without realignment the promised alignment does not exceed the alignment guaranteed at entry");
      V_WITNESS("frame-static");
    } else {
      V_ASSERT(S == 0 && L == 0 && C == 0 && X == 0, "only an empty leaf frame is left unaligned");
      if constexpr (!is_a64) V_WITNESS("frame-empty-leaf");
    }
  } else {
    // prolog: [push fp; mov fp, sp;] push gp...; [mov sa, sp;] and sp, -A; sub sp, S
    V_ASSERT(S % A == 0, "realigned SP stays aligned after the adjustment");
    V_ASSERT(f.sa_offset_from_sp() == FuncFrame::kTagInvalidOffset, "stack arguments are not addressable from a realigned SP");
    V_ASSERT(sa != sp_id, "realigned frame addresses stack arguments through another register");
    if (has_fp) V_WITNESS("frame-realigned-fp"); else V_WITNESS("frame-realigned-da-slot");
  }
  if (!is_a64) {
    // x86 prolog: with FP, fp = entry SP - R; otherwise 'mov sa, sp' after the pushes: sa = entry SP - P.
    V_ASSERT(f.sa_offset_from_sa() == (has_fp ? RA + R : RA + P), "x86: stack arguments relative to the base register");
  }
}

static CallConvId pick(const CallConvId* ids, uint32_t n) {
  uint32_t k = nondet_u8() % n;
  return ids[k];
}

static const CallConvId ids_x86[] = { CallConvId::kCDecl, CallConvId::kStdCall, CallConvId::kFastCall, CallConvId::kVectorCall, CallConvId::kThisCall,
    CallConvId::kRegParm1, CallConvId::kRegParm2, CallConvId::kRegParm3, CallConvId::kLightCall2, CallConvId::kLightCall3, CallConvId::kLightCall4 };
HARNESS h_frame_x86() {
  bool win = nondet_bool();
  check_frame<Arch::kX86>(win ? Platform::kWindows : Platform::kLinux, win ? PlatformABI::kMSVC : PlatformABI::kGNU, pick(ids_x86, 11));
}
HARNESS h_frame_x86_kf_C07A() {
  bool win = nondet_bool();
  check_frame<Arch::kX86, true>(win ? Platform::kWindows : Platform::kLinux, win ? PlatformABI::kMSVC : PlatformABI::kGNU, pick(ids_x86, 11));
}
HARNESS h_frame_x64() {
  static const CallConvId ids[] = { CallConvId::kCDecl, CallConvId::kX64SystemV, CallConvId::kX64Windows, CallConvId::kVectorCall,
    CallConvId::kLightCall2, CallConvId::kLightCall3, CallConvId::kLightCall4, CallConvId::kStdCall };
  bool win = nondet_bool();
  check_frame<Arch::kX64>(win ? Platform::kWindows : Platform::kLinux, win ? PlatformABI::kMSVC : PlatformABI::kGNU, pick(ids, 8));
}
HARNESS h_frame_a64() {
  static const CallConvId ids[] = { CallConvId::kCDecl, CallConvId::kVectorCall, CallConvId::kLightCall2, CallConvId::kLightCall4 };
  bool darwin = nondet_bool();
  check_frame<Arch::kAArch64>(darwin ? Platform::kOSX : Platform::kLinux, darwin ? PlatformABI::kDarwin : PlatformABI::kGNU, pick(ids, 4));
}
