// C05 / K4b — the local allocator's decision functions (asmjit/core/ralocal.cpp, ralocal_p.h): "choices stay inside the
// constraint masks". alloc_instruction() acts on whatever these return (assign/move/spill), so a choice outside the mask it was
// given would put a value into a register the instruction does not allow or evict a register that is not a candidate.
//   decide_on_assignment    (32-bit symbolic masks) returns a register of `allocable_regs`; home register first, then registers the
//                           work register already occupied elsewhere, callee-saved registers last.
//   decide_on_reassignment  returns kPhysNone (= spill) or a register of `allocable_regs`; decision table as documented in the code.
//   decide_on_spill_for     (consistent 2 x 8 / 6 assignment of K2, candidates = any non-empty subset of the occupied registers of the
//                           group) returns a candidate, reports the work register that lives there, and the candidate is a cheapest one.
//   pick_best_suitable_register is covered through the three.
// The allocator object is raw storage with only the fields these functions read set (no pass is run).
#include <asmjit/core.h>
#include <asmjit/core/ralocal_p.h>
#include "assign_model.h"

static Raw<BaseRAPass> g_pass;            // only _work_regs is read (work_reg_by_id)
static Raw<RALocalAllocator> g_la;
struct InstStore { RAInst inst; RATiedReg more[2]; };   // RAInst ends in a flexible array of tied registers
static Raw<InstStore> g_inst;

static inline RALocalAllocator& make_allocator() {
  RALocalAllocator& la = g_la.v;
  *reinterpret_cast<BaseRAPass**>(&g_la) = &g_pass.v;   // the `_pass` reference (first member)
  for (unsigned g = 0; g < 4; g++) la._func_preserved_regs._masks[g] = nondet_u32();
  return la;
}
static inline uint32_t lowest(uint32_t m) { return uint32_t(__builtin_ctz(m)); }
static inline uint32_t best_suitable(uint32_t regs, uint32_t preserved) { return lowest((regs & ~preserved) ? (regs & ~preserved) : regs); }

static inline RAWorkReg& subject_reg() {
  RAWorkReg& wr = g_regs[0].v;
  wr._work_id = RAWorkId(0);
  uint8_t h = nondet_u8();
  wr._home_reg_id = (h & 0x80) ? uint8_t(Reg::kIdBad) : uint8_t(h & 31);
  wr._allocated_mask = nondet_u32();
  wr._clobber_survival_mask = nondet_u32();
  wr._flags = RAWorkRegFlags(nondet_u32());
  return wr;
}

HARNESS h_decide_assignment() {
  RALocalAllocator& la = make_allocator();
  RAWorkReg& wr = subject_reg();
  RegGroup group = RegGroup(nondet_u8() & 3);
  uint32_t allocable = nondet_u32(); V_ASSUME(allocable != 0);            // ASMJIT_ASSERT(allocable_regs != 0)
  uint32_t pres = la._func_preserved_regs._masks[unsigned(group)];
  uint32_t r = la.decide_on_assignment(group, &wr, nondet_u8(), allocable);
  verif_observe(r);
  V_ASSERT(r < 32 && ((allocable >> r) & 1), "decide: assignment picks a register of the allocable mask");
  if (wr._home_reg_id != Reg::kIdBad && ((allocable >> wr._home_reg_id) & 1)) {
    V_ASSERT(r == wr._home_reg_id, "decide: assignment prefers the home register when it is allowed");
    V_WITNESS("assignment-home");
  }
  else {
    uint32_t cand = (allocable & wr._allocated_mask) ? (allocable & wr._allocated_mask) : allocable;
    V_ASSERT(r == best_suitable(cand, pres), "decide: assignment picks the lowest previously used, not callee-saved register available");
    if ((cand & ~pres) == 0) V_WITNESS("assignment-callee-saved-only"); else V_WITNESS("assignment-scratch");
  }
}

template<unsigned NTIED>
static void reassignment_case() {
  RALocalAllocator& la = make_allocator();
  RAWorkReg& wr = subject_reg();
  RAWorkReg& other = g_regs[1].v;
  const RegGroup group = RegGroup(1);
  // an instruction with NTIED tied registers in this group, after one tied register of group 0
  RAInst& inst = g_inst.v.inst;
  RATiedReg* tied = inst.tied_regs();
  inst._tied_total = 1 + NTIED;
  inst._tied_count.reset(); inst._tied_count.set(RegGroup(0), 1); inst._tied_count.set(group, NTIED);
  inst._tied_index.build_indexes(inst._tied_count);
  tied[0].init(&other, RATiedFlags(nondet_u32()), 0, Reg::kIdBad, 0, 0, Reg::kIdBad, 0);
  unsigned mine = nondet_u8() & 3;     // which tied register (if any) is the subject's
  for (unsigned i = 0; i < NTIED; i++) tied[1 + i].init(mine == i ? &wr : &other, RATiedFlags(nondet_u32()), 0, Reg::kIdBad, 0, 0, Reg::kIdBad, 0);
  bool is_tied = mine < NTIED;
  bool out_or_kill = is_tied && (uint32_t(tied[1 + (is_tied ? mine : 0)].flags()) & (uint32_t(RATiedFlags::kOut) | uint32_t(RATiedFlags::kKill))) != 0;

  uint32_t allocable = nondet_u32(); V_ASSUME(allocable != 0);
  uint32_t pres = la._func_preserved_regs._masks[unsigned(group)];
  uint32_t r = la.decide_on_reassignment(group, &wr, nondet_u8(), allocable, &inst);
  verif_observe(r);
  V_ASSERT(r == RAAssignment::kPhysNone || (r < 32 && ((allocable >> r) & 1)), "decide: reassignment spills or picks a register of the allocable mask");
  bool single_block = (uint32_t(wr._flags) & uint32_t(RAWorkRegFlags::kMultiBlockUse)) == 0;
  uint32_t filtered = allocable & ~wr._clobber_survival_mask;
  if (wr._home_reg_id != Reg::kIdBad && ((allocable >> wr._home_reg_id) & 1)) { V_ASSERT(r == wr._home_reg_id, "decide: reassignment goes home when the home register is allowed"); V_WITNESS("reassign-home"); }
  else if (out_or_kill) { V_ASSERT(r == lowest(allocable), "decide: a register that dies or is overwritten here moves to the lowest allowed register"); V_WITNESS("reassign-temporary"); }
  else if (single_block && filtered) { V_ASSERT(r == best_suitable(filtered, pres), "decide: a block-local register moves to a register that survives its clobbers"); V_WITNESS("reassign-move"); }
  else { V_ASSERT(r == RAAssignment::kPhysNone, "decide: otherwise reassignment decides to spill"); V_WITNESS("reassign-spill"); }
}
HARNESS h_decide_reassignment() { if (nondet_bool()) reassignment_case<2>(); else reassignment_case<0>(); }

template<unsigned GRP, bool ANYFREQ>
static void spill_case(const Model& m) {
  RALocalAllocator& la = make_allocator();
  PMap pm; WMap wm; Env e{pm, wm, la._cur_assignment};
  la._cur_assignment._layout.reset(); la._cur_assignment.reset_maps();
  env_init(e, m);
  BaseRAPass& pass = g_pass.v;
  pass._work_regs._data = g_reg_ptrs; pass._work_regs._size = W; pass._work_regs._capacity = W;
  // use frequencies: fixed, with ties between a dirty and a clean register (0.25 dirty costs what 0.5 clean costs), or any k/16 < 16
  static const float kFreq[W] = { 0.5f, 0.25f, 0.5f, 1.0f, 0.125f, 0.25f };
  for (unsigned w = 0; w < W; w++) g_regs[w].v._live_stats._freq = ANYFREQ ? float(nondet_u8()) * 0.0625f : kFreq[w];
  uint32_t spillable = nondet_u8() & pm.assigned._masks[GRP];
  V_ASSUME(spillable != 0);                                                // ASMJIT_ASSERT(spillable_regs != 0); callers pass occupied registers
  RAWorkId victim = kBadWorkId;
  uint32_t r = la.decide_on_spill_for(RegGroup(GRP), &g_regs[0].v, spillable, &victim);
  verif_observe(r); verif_observe(uint32_t(victim));
  V_ASSERT(r < P && ((spillable >> r) & 1), "decide: the spill candidate is one of the given registers");
  V_ASSERT(uint32_t(victim) < W && m.grp[uint32_t(victim) % W] == GRP && m.loc[uint32_t(victim) % W] == r, "decide: the reported work register is the one that lives in the chosen register");
  // the choice is a cheapest candidate under the allocator's own cost function (the lowest register among equals);
  // the shape of that function is checked in h_decide_cost
  uint32_t cost_r = 0, costs[P];
  if (!ANYFREQ) for (unsigned p = 0; p < P; p++) {
    costs[p] = 0xFFFFFFFFu;
    for (unsigned w = 0; w < W; w++) if (m.grp[w] == GRP && m.loc[w] == p) costs[p] = la.calc_spill_cost(RegGroup(GRP), &g_regs[w].v, p);
    if (p == r) cost_r = costs[p];
  }
  if (!ANYFREQ && (spillable & (spillable - 1))) for (unsigned p = 0; p < P; p++) if ((spillable >> p) & 1) {
    V_ASSERT(cost_r <= costs[p], "decide: no other candidate is cheaper to spill");
    if (p < r) V_ASSERT(cost_r < costs[p], "decide: among equally cheap candidates the lowest register is taken");
  }
  if (spillable & (spillable - 1)) V_WITNESS("spill-choice"); else V_WITNESS("spill-single");
}
// the cost function: frequency k/16 costs k * 65536, a dirty register (would need a store) costs 262144 more
template<unsigned GRP>
static void cost_case(const Model& m) {
  RALocalAllocator& la = make_allocator();
  PMap pm; WMap wm; Env e{pm, wm, la._cur_assignment};
  la._cur_assignment._layout.reset(); la._cur_assignment.reset_maps();
  env_init(e, m);
  unsigned w = nondet_u8() & 7; V_ASSUME(w < W && m.grp[w] == GRP && m.loc[w] != NONE);
  static const float kFreq[4] = { 0.0f, 0.0625f, 1.0f, 37.5f };
  static const uint32_t kCost[4] = { 0u, 65536u, 1048576u, 39321600u };
  unsigned k = nondet_u8() & 3;
  g_regs[w].v._live_stats._freq = kFreq[k];
  uint32_t c = la.calc_spill_cost(RegGroup(GRP), &g_regs[w].v, m.loc[w]);
  verif_observe(c);
  V_ASSERT(c == kCost[k] + (m.dirty[w] ? 262144u : 0u), "decide: spill cost is frequency times 2^20 plus a quarter of that for a dirty register");
  if (m.dirty[w]) V_WITNESS("cost-dirty"); else V_WITNESS("cost-clean");
}
HARNESS h_decide_cost() {
  Model m; model_nondet(m);
  if (nondet_bool()) cost_case<0>(m); else cost_case<1>(m);
}
HARNESS h_decide_spill() {
  Model m; model_nondet(m);
  if (nondet_bool()) spill_case<0, false>(m); else spill_case<1, false>(m);
}
HARNESS h_decide_spill_anyfreq() {
  Model m; model_nondet(m);
  if (nondet_bool()) spill_case<0, true>(m); else spill_case<1, true>(m);
}
