# C05 — register allocation: the kernels (lemmas) the pass's correctness rests on
UNITS = [
    Unit('spans', harness=['h_spans.cpp'], repo_units=['asmjit/support/arenavector.cpp']),
]
HARNESSES = [
    Harness('spans', 'h_spans_union_%d_%d_d%d' % (nx, ny, d), unwind=8, mem_gb=8, timeout=600,
            bounds='x: %d spans, y: %d spans, all endpoints symbolic 32-bit' % (nx, ny))
    for nx, ny, d in ((0, 0, 1), (0, 3, 0), (3, 0, 2), (1, 1, 0), (1, 3, 1), (3, 1, 2), (2, 2, 2), (2, 3, 0), (3, 2, 1), (3, 3, 0), (3, 3, 1), (3, 3, 2))
] + [
    Harness('spans', 'h_spans_union_weak_3_3', unwind=8, mem_gb=8, timeout=600, bounds=''),
    Harness('spans', 'h_spans_union_weak_2_3', unwind=8, mem_gb=8, timeout=600, bounds=''),
    Harness('spans', 'h_spans_intersects', unwind=8, mem_gb=8, timeout=600, bounds=''),
    Harness('spans', 'h_spans_open_close', unwind=8, mem_gb=8, timeout=600, bounds=''),
]
EXPLANATION = 'wip'
OUTSIDE = []
ASSUMPTIONS = []
