# C05 — register allocation: the kernels (lemmas) the pass's correctness rests on
UNITS = [
    Unit('spans', harness=['h_spans.cpp'], repo_units=['asmjit/support/arenavector.cpp']),
    Unit('assign', harness=['h_assign.cpp'], repo_units=[]),
    Unit('assign_x64', harness=['h_assign.cpp'], repo_units=[], defines=['C05_X64']),
    Unit('stack', harness=['h_stack.cpp'], repo_units=['asmjit/core/rastack.cpp', 'asmjit/support/arenavector.cpp']),
    Unit('defs', harness=['h_defs.cpp'], repo_units=[]),
    Unit('decide', harness=['h_decide.cpp'], repo_units=['asmjit/core/ralocal.cpp']),
]
HARNESSES = [
    Harness('spans', 'h_spans_union_%d_%d_d%d' % (nx, ny, d), unwind=8, mem_gb=8, timeout=600,
            bounds='x: %d spans, y: %d spans, all endpoints symbolic 32-bit' % (nx, ny))
    for nx, ny, d in ((0, 0, 1), (0, 3, 0), (3, 0, 2), (1, 1, 0), (1, 3, 1), (3, 1, 2), (2, 2, 2), (2, 3, 0), (3, 2, 1), (3, 3, 0), (3, 3, 1), (3, 3, 2))
] + [
    Harness('spans', 'h_spans_union_loose_3_3', unwind=8, mem_gb=8, timeout=600, bounds=''),
    Harness('spans', 'h_spans_union_loose_2_3', unwind=8, mem_gb=8, timeout=600, bounds=''),
    Harness('spans', 'h_spans_intersects', unwind=8, mem_gb=8, timeout=600, bounds=''),
    Harness('spans', 'h_spans_open_close', unwind=8, mem_gb=8, timeout=600, bounds=''),
] + [
    Harness('assign', 'h_assign_' + op, unwind=17, mem_gb=4, timeout=600, bounds='') for op in ('assign', 'unassign', 'reassign', 'swap', 'clean', 'dirty', 'copy', 'maps')
] + [
    Harness('assign_x64', 'h_assign_' + op + '_x64', unwind=70, mem_gb=6, timeout=1200, tiers=('thorough',), bounds='') for op in ('assign', 'unassign', 'reassign', 'swap', 'clean', 'dirty', 'copy', 'maps')
] + [
    Harness('stack', 'h_stack_' + nm, unwind=9, mem_gb=4, timeout=600, bounds='') for nm in ('frame_k1', 'frame_k2', 'frame_k3', 'frame_k4', 'adjust', 'new_slot', 'chain_k2', 'chain_k3')
] + [
    Harness('defs', 'h_defs_' + nm, unwind=6, mem_gb=2, timeout=300, bounds='') for nm in ('regcount', 'regmask', 'tied')
] + [
    Harness('decide', 'h_decide_' + nm, unwind=17, mem_gb=4, timeout=300, bounds='') for nm in ('assignment', 'reassignment', 'spill', 'spill_anyfreq', 'cost')
]
EXPLANATION = 'wip'
OUTSIDE = []
ASSUMPTIONS = []
