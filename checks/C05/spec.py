# C05 — register allocation preserves meaning: ONLY the kernels (lemmas) the pass's correctness rests on are decided here.
# The whole-program statement of the property is outside (see EXPLANATION / OUTSIDE).
UNITS = [
    # K1 live spans (radefs_p.h is header-only; the vector growth comes from arenavector.cpp, the arena is a typed stand-in in the harness)
    Unit('spans', harness=['h_spans.cpp'], repo_units=['asmjit/support/arenavector.cpp']),
    # K2 RAAssignment (header-only)
    Unit('assign', harness=['h_assign.cpp'], repo_units=[]),
    Unit('assign_x64', harness=['h_assign.cpp'], repo_units=[], defines=['C05_X64']),
    # K3 stack allocator
    Unit('stack', harness=['h_stack.cpp'], repo_units=['asmjit/core/rastack.cpp', 'asmjit/support/arenavector.cpp']),
    # K4 small helpers (header-only) and the local allocator's decision functions (ralocal.cpp; nothing else of it is reached)
    Unit('defs', harness=['h_defs.cpp'], repo_units=[]),
    Unit('decide', harness=['h_decide.cpp'], repo_units=['asmjit/core/ralocal.cpp']),
    # K5 the instructions the allocator inserts (x86): the pass's emit_* functions + the move selection of the emit helper
    Unit('emit_x86', harness=['h_emit_x86.cpp'], repo_units=['asmjit/x86/x86rapass.cpp', 'asmjit/x86/x86emithelper.cpp', 'asmjit/core/rapass.cpp', 'asmjit/core/rastack.cpp',
                                                            'asmjit/support/arenavector.cpp', 'asmjit/core/archtraits.cpp', 'asmjit/core/type.cpp', 'asmjit/core/environment.cpp']),
    Unit('emit_a64', harness=['h_emit_a64.cpp'], repo_units=['asmjit/arm/a64rapass.cpp', 'asmjit/arm/a64emithelper.cpp', 'asmjit/core/rapass.cpp', 'asmjit/core/rastack.cpp',
                                                            'asmjit/support/arenavector.cpp', 'asmjit/core/archtraits.cpp', 'asmjit/core/type.cpp', 'asmjit/core/environment.cpp']),
]

Q, T = ('quick', 'thorough'), ('thorough',)
B_SPAN = 'x: %d spans, y: %d spans, every endpoint symbolic over 32 bits (including 0 = kNaN and 0xFFFFFFFF = kInf); lists valid (a_i < b_i <= a_(i+1)); destination %s; the arena request may fail'
DST = {0: 'empty (storage from the arena)', 1: 'holding 0..6 stale spans in own storage of capacity 6 (reused)', 2: 'holding 2 stale spans, capacity 2 (grows, old storage released)'}
# measured (this machine, one core): 1_1 3 s; 2_2 56-84 s / 2.1 GB; 2_3 80 s / 2.0 GB; 3_3 95-115 s / 2.3 GB
SPAN_CASES = [  # nx, ny, dst, tiers, mem
    (0, 0, 1, Q, 1), (0, 3, 0, Q, 1), (3, 0, 2, Q, 1), (1, 1, 0, Q, 1), (1, 3, 1, Q, 2), (3, 1, 2, Q, 2),
    (2, 2, 2, Q, 4), (2, 3, 0, Q, 4), (3, 2, 1, Q, 4), (3, 3, 0, Q, 5), (3, 3, 1, T, 5), (3, 3, 2, T, 5),
]
B_ASSIGN = ('arbitrary consistent state of 2 groups x 8 physical registers and 6 work registers (group of each work register, location '
            'none/0..7 injective per group, dirty flags: all symbolic); arguments symbolic within the ASMJIT_ASSERT preconditions of the operation')
B_ASSIGN64 = B_ASSIGN.replace('2 groups x 8 physical registers and 6 work registers', 'the x86-64 register file (4 groups: 16 + 32 + 8 + 8 physical registers) and 8 work registers').replace('none/0..7', 'none/0..count-1')
ASSIGN_OPS = {
    'assign': 'assign(group, w, p, dirty): w unassigned, p free, group = group(w)',
    'unassign': 'unassign(group, w, p): w in p',
    'reassign': 'reassign(group, w, dst, src): w in src, dst free, dst != src',
    'swap': 'swap(group, a, pa, b, pb): a in pa, b in pb, same group, a != b',
    'clean': 'make_clean(group, w, p): w in p', 'dirty': 'make_dirty(group, w, p): w in p',
    'copy': 'two arbitrary consistent states over the same work registers: equals; copy_from(assignment) / copy_from(both maps) / copy_from(phys map) + assign_work_ids_from_phys_ids; swap(RAAssignment&)',
    'maps': 'PhysToWorkMap::unassign(group, p, index) followed by assign_work_ids_from_phys_ids; PhysToWorkMap::reset + WorkToPhysMap::reset',
}
B_EMIT86 = 'work register of symbolic TypeId (all 256 values; those ArchUtils::type_id_to_reg_signature accepts for x86-64: int8..uint64, intptr/uintptr, float32/64, mask8..64, mmx32/64, every 32/64/128/256/512-bit vector type), signature / size / alignment derived as BaseCompiler does, virtual index 16 bits, physical ids 0..31, SSE / AVX / AVX-512 mode; 256-bit types only with AVX, 512-bit and mask types only with AVX-512; home slot existing or created on demand'
B_EMITA64 = 'work register of symbolic TypeId (all 256 values; those accepted for AArch64: integers, float32/64, 32/64/128-bit vector types), virtual index 16 bits, physical ids 0..31; home slot existing or created on demand'
B_SLOT = 'size 1..2^20, alignment 1,2,4,..,128, flags {register home, stack argument} x 2, use count 32 bits, stale weight/offset 32 bits - all symbolic per slot'

HARNESSES = [
    Harness('spans', 'h_spans_union_%d_%d_d%d' % (nx, ny, d), unwind=8, mem_gb=mem, timeout=900, tiers=tiers, bounds='non_overlapping_union_of: ' + B_SPAN % (nx, ny, DST[d]))
    for nx, ny, d, tiers, mem in SPAN_CASES
] + [
    Harness('spans', 'h_spans_union_loose_2_3', unwind=8, mem_gb=4, timeout=900, tiers=Q, bounds='non_overlapping_union_of on 2 + 3 spans that may be empty (a_i <= b_i <= a_(i+1)): soundness direction only (accepted => no shared position, result sorted)'),
    Harness('spans', 'h_spans_union_loose_3_3', unwind=8, mem_gb=4, timeout=900, tiers=T, bounds='as h_spans_union_loose_2_3 with 3 + 3 spans'),
    Harness('spans', 'h_spans_intersects', unwind=8, mem_gb=4, timeout=900, bounds='intersects(): list sizes (0,2) (1,1) (1,3) (2,2) (3,2) (3,3), endpoints symbolic over 32 bits, both argument orders'),
    Harness('spans', 'h_spans_open_close', unwind=8, mem_gb=1, timeout=300, bounds='open_at / close_at / is_open / width / RALiveSpan::is_valid,width from a valid list of 0..3 spans with or without spare capacity; start < end, start >= start of the last span (positions never run backwards); arena may fail'),
] + [
    Harness('assign', 'h_assign_' + op, unwind=17, mem_gb=2, timeout=600, bounds=what + '; ' + B_ASSIGN) for op, what in ASSIGN_OPS.items()
] + [
    # measured: 130-760 s, 2.1-3.5 GB each
    Harness('assign_x64', 'h_assign_' + op + '_x64', unwind=70, mem_gb=8, timeout=3600, tiers=T, bounds=what + '; ' + B_ASSIGN64) for op, what in ASSIGN_OPS.items()
] + [
    # measured: k1 6 s, k2 25 s, k3 63 s, k4 123 s (0.2-0.7 GB)
    Harness('stack', 'h_stack_frame_k%d' % k, unwind=9, mem_gb=2, timeout=900, bounds='calculate_stack_frame on a hand-built allocator with %d slots: %s; allocator alignment = maximum slot alignment' % (k, B_SLOT))
    for k in (1, 2, 3, 4)
] + [
    Harness('stack', 'h_stack_adjust', unwind=9, mem_gb=1, timeout=300, bounds='adjust_slot_offsets on 0..4 slots, offsets 0..2^30, delta -2^30..2^30 (no signed overflow), flags symbolic'),
    Harness('stack', 'h_stack_new_slot', unwind=9, mem_gb=1, timeout=300, bounds='new_slot from an allocator with 0, 2 or 3 slots (with and without spare vector capacity): base id 8 bits, size 32 bits, alignment 0..255, flags 16 bits; every arena request may fail'),
    Harness('stack', 'h_stack_chain_k2', unwind=9, mem_gb=2, timeout=600, bounds='reset, 2 x new_slot (%s), calculate_stack_frame - through the real construction sequence' % B_SLOT),
    Harness('stack', 'h_stack_chain_k3', unwind=9, mem_gb=2, timeout=600, bounds='as h_stack_chain_k2 with 3 slots (the slot vector grows twice)'),
] + [
    Harness('defs', 'h_defs_regcount', unwind=6, mem_gb=1, timeout=300, bounds='RARegCount get/set/add/reset/compare and RARegIndex::build_indexes: packed counters symbolic over 32 bits, group 0..3, n within the ASMJIT_ASSERT preconditions'),
    Harness('defs', 'h_defs_regmask', unwind=6, mem_gb=1, timeout=300, bounds='RARegMask is_empty/has/compare/op<Or,And,AndNot>/clear/init/reset, RARegsStats make_*/has_*, RALiveCount op<Max>: all masks symbolic over 32 bits'),
    Harness('defs', 'h_defs_tied', unwind=6, mem_gb=1, timeout=300, bounds='RATiedReg init and every flag predicate, make_read_only / make_write_only, done marks, packed ids, consecutive payload: flags, masks, ids symbolic over their full width'),
    Harness('decide', 'h_decide_assignment', unwind=17, mem_gb=1, timeout=300, bounds='decide_on_assignment: allocable mask (non-zero), allocated mask, preserved mask symbolic over 32 bits; home register none or 0..31; group 0..3'),
    Harness('decide', 'h_decide_reassignment', unwind=17, mem_gb=1, timeout=300, bounds='decide_on_reassignment: masks as above, clobber-survival mask and work register flags symbolic, instruction with 0 or 2 tied registers of the group (flags symbolic; none, first or second is the subject) after one of another group'),
    Harness('decide', 'h_decide_spill', unwind=17, mem_gb=3, timeout=900, bounds='decide_on_spill_for on an arbitrary consistent 2 x 8 / 6 assignment (as K2), candidates = any non-empty subset of the occupied registers of the group; use frequencies fixed to {0.5, 0.25, 0.5, 1, 0.125, 0.25} (ties with the dirty penalty included): result in the set, victim reported, cheapest under calc_spill_cost, lowest id among equals'),
    Harness('decide', 'h_decide_spill_anyfreq', unwind=17, mem_gb=3, timeout=900, bounds='as h_decide_spill with symbolic use frequencies k/16, k < 256: result in the set and victim reported (minimality not asserted: float products are beyond the solver here)'),
    Harness('decide', 'h_decide_cost', unwind=17, mem_gb=1, timeout=300, bounds='calc_spill_cost for frequencies {0, 1/16, 1, 37.5} on an arbitrary consistent assignment: frequency * 2^20 + 2^18 if the register is dirty'),
] + [
    # measured: 0.4-2.5 s, < 150 MB each
    Harness('emit_x86', 'h_emit_x86_' + nm, unwind=10, mem_gb=1, timeout=300, bounds=what) for nm, what in (
        ('move', 'X86RAPass::emit_move: ' + B_EMIT86), ('load', 'X86RAPass::emit_load (minus the regions of C05A, C05B): ' + B_EMIT86), ('save', 'X86RAPass::emit_save (minus the regions of C05A, C05B): ' + B_EMIT86),
        ('swap', 'X86RAPass::emit_swap: two GP work registers of symbolic integer types int8..uint64 (all 64 pairs), physical ids 0..15'),
        ('jump', 'X86RAPass::emit_jump: label id symbolic over 32 bits'))
] + [
    Harness('emit_a64', 'h_emit_a64_' + nm, unwind=10, mem_gb=1, timeout=300, bounds=what) for nm, what in (
        ('move', 'ARMRAPass::emit_move: ' + B_EMITA64), ('load', 'ARMRAPass::emit_load: ' + B_EMITA64), ('save', 'ARMRAPass::emit_save: ' + B_EMITA64),
        ('jump', 'ARMRAPass::emit_jump: label id symbolic over 32 bits'))
] + [
    Harness('emit_x86', 'h_emit_x86_%s_kf_%s' % (op, kf), unwind=10, mem_gb=1, timeout=300, known=kf,
            bounds='emit_%s confined to the region of known finding %s (%s)' % (op, kf, 'TypeId kFloat32 / kFloat64' if kf == 'C05A' else 'TypeId kMmx32'))
    for kf in ('C05A', 'C05B') for op in ('load', 'save')
]

EXPLANATION = (
    'PARTIAL. The property (a compiled function behaves like its virtual-register program for every program and input, on x86, x86-64 and AArch64) is a '
    'whole-program statement and is NOT decided: it cannot be encoded within reach of the tools in this sandbox (it would need symbolic execution of a pass that '
    'allocates in hundreds of places and walks heap graphs of nodes/blocks/work registers, a liveness fixpoint, and an interpreter of x86 / AArch64 as the oracle). '
    'What IS decided, by bounded symbolic execution (CBMC) of the real functions compiled from /repo, are the kernels the correctness argument of the pass rests on, '
    '(five since K5 was added) each as a one-step / whole-input-space proof: '
    'K1 RALiveSpans::non_overlapping_union_of / intersects / open_at / close_at (radefs_p.h): bin_pack shares a physical register between two virtual registers only if '
    'this function accepts, and it accepts iff no two live spans intersect (half-open [a, b)); the accepted union is exactly the sorted disjoint merge, so the argument '
    'iterates over all registers packed into one physical register; arena failure is reported. '
    'K2 RAAssignment (raassignment_p.h): from an arbitrary consistent state (work->phys and phys->work mutually inverse, assigned/dirty masks equal to the maps, dirty '
    'subset of assigned) every operation assign / unassign / reassign / swap / make_clean / make_dirty / copy_from / reset / PhysToWorkMap::unassign + rebuild yields exactly the '
    'consistent state of the updated partial injection (nothing else changes), with its ASMJIT_ASSERTs and debug verify() as obligations. '
    'K3 RAStackAllocator (rastack.cpp): after calculate_stack_frame on up to 4 slots every spill home is aligned, homes are pairwise disjoint and inside [0, stack_size), '
    'stack_size / alignment are consistent; adjust_slot_offsets shifts all homes alike; new_slot establishes the state calculate_stack_frame starts from. '
    'K4 the pure helpers (RARegCount / RARegIndex / RARegMask / RARegsStats / RATiedReg predicates) and the local allocator\'s decision functions '
    '(decide_on_assignment / decide_on_reassignment / decide_on_spill_for / calc_spill_cost / pick_best_suitable_register): every choice lies inside the mask it was given. '
    'K5 the instructions the allocator inserts (X86RAPass / ARMRAPass emit_move, emit_swap, emit_load, emit_save, emit_jump with the emit helpers\' emit_reg_move): for a work register '
    'of any type the Compiler can create exactly one instruction is emitted, on the given physical registers of the register\'s class and (load/save) on the register\'s home operand; '
    'it is an instruction the ISA defines for that class and shape (reference tables in the harnesses, written from the SDM / Arm ARM) and it transfers at least every byte of the '
    'virtual register\'s type (swap: of the wider of the two) and, in memory, no byte beyond the home slot; two defects found by this lemma are recorded as known findings C05A, C05B. '
    'These are lemmas; their composition into the end-to-end claim is not checked by anything here.'
)
OUTSIDE = [
    'THE PROPERTY ITSELF: meaning preservation of functions compiled by x86::Compiler / a64::Compiler (return value, memory effects, calls) for programs x inputs - not encodable with the tools available (no symbolic executor for the C++ heap graphs of a whole RA run plus an ISA interpreter as oracle); nothing here executes or interprets generated code',
    'CFG construction and RW-info -> tied-register translation (x86rapass.cpp / a64rapass.cpp on_instruction, racfgbuilder_p.h), incl. same-register and partial-write rules',
    'liveness fixpoint, kill/last marking, the positions fed to open_at/close_at (rapass.cpp build_liveness) - only the span primitives it calls are checked',
    'bin_pack itself (order, hints, consecutive-register placement, preferred / clobber-survival masks) - only the acceptance test it relies on is checked',
    'local allocation as a whole: alloc_instruction, spill_after_allocation, switch_to_assignment, alloc_branch, alloc_jump_table, make_initial_assignment, the emitted moves/swaps/loads/saves and their order - only the map operations (K2) and the decision functions (K4) they call are checked, one call at a time; that the allocator calls them with the right arguments is not',
    'call and return lowering, argument shuffling, operand rewriting virtual -> physical / stack, prolog/epilog insertion (C06/C07 check the non-RA parts)',
    'AArch64- and x86-specific RA code other than emit_move / emit_swap / emit_load / emit_save / emit_jump (K5): on_instruction, on_invoke / on_ret, emit_pre_call, rewrite, on_init',
    'K5: that the allocator calls emit_* at the right places with the right registers; the later rewrite of the home operand to [sp + offset]; encoding of the emitted instruction (C01/C02); x86 32-bit mode; alignment faults of aligned vector moves depend on the frame alignment (C07); register signatures that differ from what type_id_to_reg_signature gives for the type',
    'K1: lists longer than 3 + 3 spans; lists violating the invariant (unsorted / overlapping within one list); K1 loose: only the soundness direction for lists with empty spans',
    'K2: more than 6 (8) work registers, other register files than 2 x 8 and 16/32/8/8; sequences of operations (one step from an arbitrary consistent state is proved, which covers every reachable state of these sizes by induction); calls that violate an ASMJIT_ASSERT precondition or pass a group different from the work register\'s group',
    'K3: more than 4 slots; sizes above 2^20 bytes; alignments above 128; the order in which slots are laid out (weights are checked, the order is not part of the claim)',
    'K4: decide_on_spill_for minimality for arbitrary frequencies (fixed frequency table only); register files wider than 8 in decide_on_spill_for',
]
ASSUMPTIONS = [
    'K1 environment: Arena::_alloc_reusable is a harness stand-in serving one request per run from a typed pool of 32 spans, reporting the size the real arena reports, failing nondeterministically; Arena::_release_dynamic is empty (the arena is checked by C18)',
    'K1 representation invariant of a span list: a_i < b_i and b_i <= a_(i+1) (what open_at/close_at and the union itself produce); h_spans_open_close additionally assumes start < end and start >= start of the last span (build_liveness walks positions upwards)',
    'K2 representation invariant: the state is the image of a partial injection work register -> (its group, physical register) plus a dirty flag per assigned register; states are generated from that model, so every consistent state of the stated sizes is covered and no inconsistent one',
    'K2 preconditions beyond the ASMJIT_ASSERTs: the group argument is the work register\'s group and the physical id is below the group\'s register count (all callers pass work_reg->group() and ids taken from masks of existing registers); make_clean/make_dirty are called for the register the work register is in',
    'K3 environment: Arena::_alloc_oneshot / _alloc_reusable are harness stand-ins handing out typed RAStackSlot objects / pointer arrays, failing nondeterministically in h_stack_new_slot; during calculate_stack_frame any request is an asserted error (the function never asks for memory - proved, see the check report)',
    'K3 hand-built states: allocator alignment = max(1, slot alignments), slot alignment a power of two 1..128, size >= 1 - established by new_slot (h_stack_new_slot, h_stack_chain_*) from the values BaseCompiler::_new_stack / new_virt_reg produce',
    'K5: BaseEmitter::_emitI (one and two operands) is a recording harness stub; the emitter is raw storage; X86RAPass / ARMRAPass, RAWorkReg, VirtReg are raw typed storage with only the fields emit_* read set (Pass::_cb is bound through its ABI slot, asserted); logging / kRAAnnotate off; Arena stand-in hands out one RAStackSlot and one slot-vector block; a 256-bit (512-bit / mask) type is only used when the function has AVX (AVX-512) enabled',
    'K5 reference tables (what each mov/movzx/movd/movq/movss/movsd/movaps/movapd/movdqa/vmov*/kmov*/xchg and ldr/ldrb/ldrh/str/strb/strh/mov/fmov form transfers, for which register class it exists) are written in the harness from the SDM / Arm ARM',
    'K4: RALocalAllocator / BaseRAPass objects are raw storage with only the fields the decision functions read set; home register ids are none or < 32',
]

# Sanity mutants (checks/C05/mutants/*.diff, applied to a scratch worktree with tools/mutrun.sh; every one is reported as VIOLATION):
#   k1_union_lt       second skip loop of non_overlapping_union_of uses < for <=   -> h_spans_union_2_2_d2 (touching spans refused)
#   k1_union_miss     first skip loop tests the span start instead of its end      -> h_spans_union_2_2_d2 (overlap accepted, union unsorted)
#   k2_swap_dirty     RAAssignment::swap flips only one of the two dirty bits      -> h_assign_swap
#   k2_reassign_stale reassign leaves the source entry of the phys->work map       -> h_assign_reassign (debug verify() obligation)
#   k3_align_down     calculate_stack_frame aligns the offset down instead of up   -> h_stack_frame_k2 (slots overlap)
#   k4_assign_mask    decide_on_assignment replaces the allocable mask             -> h_decide_assignment
#   k4_spill_victim   decide_on_spill_for forgets to update the victim work id     -> h_decide_spill_anyfreq
#   k4_regindex       build_indexes drops the third summand                        -> h_defs_regcount
#   k5_x86_swap_min   X86RAPass::emit_swap takes the width of the NARROWER register (seeded change m1) -> h_emit_x86_swap
#   k5_x86_mask64     emit_reg_move moves a 64-bit mask with kmovd                  -> h_emit_x86_move (and load/save)
#   k5_a64_save_w     a64 emit_reg_move stores a 64-bit integer with str Wt         -> h_emit_a64_save
