// C05 / K5 (AArch64) — "the instructions the allocator inserts transfer every byte of the virtual register".
// Same statement as h_emit_x86.cpp for a64::ARMRAPass::emit_move / emit_load / emit_save (asmjit/arm/a64rapass.cpp) and
// a64::EmitHelper::emit_reg_move (a64emithelper.cpp): work register of any type the a64::Compiler can create (symbolic TypeId ->
// signature / size / alignment through the real ArchUtils::type_id_to_reg_signature for AArch64), symbolic physical ids.
// emit_swap is not implemented on AArch64 (returns kInvalidState) and is never called: ArchTraits reports no swap instruction.
#include <asmjit/a64.h>
#include <asmjit/core/archtraits.h>
#include <asmjit/arm/a64emithelper_p.h>
#include <asmjit/arm/a64rapass_p.h>
#include "verif.h"
using namespace asmjit;

template<class T> union Raw { T v; Raw() noexcept {} ~Raw() noexcept {} };

namespace rec { static uint32_t count; static InstId id; static Operand_ o0, o1; static uint32_t nops; }
static RAStackSlot g_slot_obj;
static RAStackSlot* g_slot_vec[16];
static int g_n_oneshot, g_n_reusable;
ASMJIT_BEGIN_NAMESPACE
Error BaseEmitter::_emitI(InstId inst_id, const Operand_& a, const Operand_& b) { rec::count++; rec::id = inst_id; rec::o0 = a; rec::o1 = b; rec::nops = 2; return Error::kOk; }
Error BaseEmitter::_emitI(InstId inst_id, const Operand_& a) { rec::count++; rec::id = inst_id; rec::o0 = a; rec::nops = 1; return Error::kOk; }
void* Arena::_alloc_oneshot(size_t size) noexcept {
  V_ASSERT(size <= sizeof(RAStackSlot) + 4 && g_n_oneshot == 0, "emit env: one stack slot object is requested at most");
  g_n_oneshot++; return &g_slot_obj;
}
void* Arena::_alloc_reusable(size_t size, Out<size_t> allocated_size) noexcept {
  V_ASSERT(size <= sizeof(g_slot_vec) && g_n_reusable == 0, "emit env: one slot vector block is requested at most");
  g_n_reusable++; allocated_size = size; return g_slot_vec;
}
void Arena::_release_dynamic(void*, size_t) noexcept {}
ASMJIT_END_NAMESPACE

alignas(16) static uint64_t g_emitter_mem[(sizeof(a64::Compiler) + 7) / 8];
static Raw<Arena> g_arena;
static Raw<a64::ARMRAPass> g_pass;
static Raw<VirtReg> g_vreg[1];
static Raw<RAWorkReg> g_wreg[1];
static RAStackSlot g_old_slot;

static inline a64::ARMRAPass& make_pass() {
  a64::ARMRAPass& p = g_pass.v;
  reinterpret_cast<void**>(&g_pass)[1] = g_emitter_mem;                      // Pass::_cb (reference member after the vptr)
  V_ASSERT(static_cast<void*>(&p.cb()) == static_cast<void*>(g_emitter_mem), "emit env: the pass is bound to the recording emitter");
  p._emit_helper._emitter = reinterpret_cast<BaseEmitter*>(g_emitter_mem);
  p._diagnostic_options = DiagnosticOptions::kNone;
  p._sp = a64::sp;
  for (unsigned i = 0; i < Arena::kReusableSlotCount; i++) g_arena.v._reusable_slots[i] = nullptr;
  p._stack_allocator.reset(&g_arena.v);
  rec::count = 0; rec::id = 0; rec::nops = 0; g_n_oneshot = g_n_reusable = 0;
  return p;
}

static inline bool make_work_reg(TypeId type_id, uint32_t virt_index) {
  TypeId t2 = type_id; OperandSignature sig{0};
  if (ArchUtils::type_id_to_reg_signature(Arch::kAArch64, type_id, Out(t2), Out(sig)) != Error::kOk) return false;
  uint32_t size = TypeUtils::size_of(t2);
  uint32_t alog2 = 31 - Support::clz((size < 64 ? size : 64u) | 1u);
  VirtReg& v = g_vreg[0].v;
  v._id = Operand::virt_index_to_virt_id(virt_index); v._virt_size = size; v._reg_type = sig.reg_type();
  v._reg_flags = VirtReg::_flags_from_alignment_log2(alog2); v._type_id = t2;
  RAWorkReg& w = g_wreg[0].v;
  w._work_id = RAWorkId(0); w._virt_id = v._id; w._virt_reg = &v; w._signature = sig; w._stack_slot = nullptr; w._flags = RAWorkRegFlags::kNone;
  return true;
}

// ---- reference: AArch64 register classes and what the instructions used here transfer (Arm ARM, C6 / C7) -------------------------
enum Cls { kNoCls, kGpCls, kVecCls };
static inline Cls cls_of(const Operand_& o) {
  if (!o.is_reg()) return kNoCls;
  switch (o.as<Reg>().reg_type()) {
    case RegType::kGp32: case RegType::kGp64: return kGpCls;
    case RegType::kVec8: case RegType::kVec16: case RegType::kVec32: case RegType::kVec64: case RegType::kVec128: return kVecCls;
    default: return kNoCls;
  }
}
static inline uint32_t reg_bytes(const Operand_& o) {
  switch (o.as<Reg>().reg_type()) {
    case RegType::kGp32: return 4; case RegType::kGp64: return 8;
    case RegType::kVec8: return 1; case RegType::kVec16: return 2; case RegType::kVec32: return 4; case RegType::kVec64: return 8; case RegType::kVec128: return 16;
    default: return 0;
  }
}
// Bytes moved by `id r, x` where r is a register and x a register of the same type or a memory operand; 0 = not a form of the ISA.
static inline uint32_t transfer_bytes(InstId id, const Operand_& r, const Operand_& x) {
  Cls c = cls_of(r); uint32_t rb = reg_bytes(r);
  bool x_mem = x.is_mem();
  bool same_reg = x.is_reg() && x.as<Reg>().reg_type() == r.as<Reg>().reg_type();
  a64::VecElementType et = c == kVecCls ? r.as<a64::Vec>().element_type() : a64::VecElementType::kNone;
  bool same_et = c == kVecCls && x.is_reg() && x.as<a64::Vec>().element_type() == et;
  switch (id) {
    case a64::Inst::kIdLdr: case a64::Inst::kIdStr:     return c == kGpCls && x_mem ? rb : 0;
    case a64::Inst::kIdLdrb: case a64::Inst::kIdStrb:   return c == kGpCls && rb == 4 && x_mem ? 1 : 0;     // Wt; a load clears the rest of Wt
    case a64::Inst::kIdLdrh: case a64::Inst::kIdStrh:   return c == kGpCls && rb == 4 && x_mem ? 2 : 0;
    case a64::Inst::kIdLdr_v: case a64::Inst::kIdStr_v: return c == kVecCls && et == a64::VecElementType::kNone && x_mem ? rb : 0;   // Bt, Ht, St, Dt, Qt
    case a64::Inst::kIdMov:                             return c == kGpCls && same_reg ? rb : 0;
    case a64::Inst::kIdFmov_v:                          return c == kVecCls && same_reg && et == a64::VecElementType::kNone && (rb == 2 || rb == 4 || rb == 8) ? rb : 0;
    case a64::Inst::kIdMov_v:                           return c == kVecCls && same_reg && same_et && et == a64::VecElementType::kB && (rb == 8 || rb == 16) ? rb : 0;   // alias of ORR Vd.8B / Vd.16B
    default: return 0;
  }
}
static inline Cls cls_of_group(RegGroup g) { return g == RegGroup::kGp ? kGpCls : g == RegGroup::kVec ? kVecCls : kNoCls; }

static inline void check_home_operand(const Operand_& m, a64::ARMRAPass& p, RAWorkReg& w, bool had_slot, uint32_t bytes) {
  V_ASSERT(m.is_mem() && m.as<BaseMem>().is_reg_home() && m.as<BaseMem>().base_id() == w.virt_id(), "emit: the memory operand is the home of this virtual register");
  V_ASSERT(!m.as<BaseMem>().has_index() && m.as<BaseMem>().offset() == 0 && m.as<BaseMem>().base_type() == RegType::kGp64, "emit: the home operand has the stack pointer type as base, no index, no offset");
  RAStackSlot* s = w.stack_slot();
  V_ASSERT(s != nullptr && s == (had_slot ? &g_old_slot : &g_slot_obj), "emit: the work register has a home slot afterwards (the existing one is kept)");
  V_ASSERT(s->size() == w.virt_reg()->virt_size() && s->alignment() == w.virt_reg()->alignment() && s->is_reg_home() && s->base_reg_id() == a64::Gp::kIdSp, "emit: the home slot has the size and alignment of the virtual register and is addressed from the stack pointer");
  if (!had_slot) V_ASSERT(p._stack_allocator.slot_count() == 1 && p._stack_allocator._slots[0] == s && w.has_flag(RAWorkRegFlags::kStackUsed), "emit: a slot created on demand is registered with the stack allocator");
  V_ASSERT(bytes <= s->size(), "emit: the instruction touches no memory beyond the home slot");
}

enum Op { kMove, kLoad, kSave };
template<Op OP>
static void move_case() {
  a64::ARMRAPass& p = make_pass();
  V_ASSERT(!ArchTraits::by_arch(Arch::kAArch64).has_inst_reg_swap(RegGroup::kGp) && !ArchTraits::by_arch(Arch::kAArch64).has_inst_reg_swap(RegGroup::kVec), "emit: AArch64 reports no register swap instruction (emit_swap is never called)");
  TypeId t = TypeId(nondet_u8());
  bool ok = make_work_reg(t, nondet_u16());
  V_ASSUME(ok);
  RAWorkReg& w = g_wreg[0].v;
  t = w.type_id();
  const uint32_t need = TypeUtils::size_of(t);
  const Cls cls = cls_of_group(w.group());
  V_ASSERT(cls != kNoCls && need != 0, "emit: a virtual register has a register class and a size");
  uint32_t a = nondet_u8() & 31, b = nondet_u8() & 31;
  bool had_slot = false;
  if (OP != kMove && nondet_bool()) {
    had_slot = true;
    g_old_slot._base_reg_id = a64::Gp::kIdSp; g_old_slot._alignment = uint8_t(w.virt_reg()->alignment()); g_old_slot._flags = RAStackSlot::kFlagRegHome; g_old_slot._size = need;
    w._stack_slot = &g_old_slot;
  }
  Error err = OP == kMove ? p.a64::ARMRAPass::emit_move(&w, a, b) : OP == kLoad ? p.a64::ARMRAPass::emit_load(&w, a) : p.a64::ARMRAPass::emit_save(&w, a);
  verif_observe(uint32_t(err)); verif_observe(rec::id); verif_observe(rec::count); verif_observe(uint32_t(t));
  V_ASSERT(err == Error::kOk && rec::count == 1 && rec::nops == 2, "emit: exactly one two-operand instruction is emitted");
  const Operand_& o0 = rec::o0; const Operand_& o1 = rec::o1;
  uint32_t bytes = 0;
  if (OP == kMove) {
    V_ASSERT(cls_of(o0) == cls && cls_of(o1) == cls && o0.id() == a && o1.id() == b, "emit: move goes from the given source to the given destination register of the class");
    bytes = transfer_bytes(rec::id, o0, o1);
  }
  else {
    // both ldr and str take the register first, the memory operand second
    V_ASSERT(cls_of(o0) == cls && o0.id() == a, "emit: load and save use the given register of the class");
    bool is_load = rec::id == a64::Inst::kIdLdr || rec::id == a64::Inst::kIdLdrb || rec::id == a64::Inst::kIdLdrh || rec::id == a64::Inst::kIdLdr_v;
    V_ASSERT(is_load == (OP == kLoad), "emit: a load is a load instruction and a save a store instruction");
    bytes = transfer_bytes(rec::id, o0, o1);
    check_home_operand(o1, p, w, had_slot, bytes);
  }
  verif_observe(bytes);
  V_ASSERT(bytes != 0, "emit: the instruction is one the AArch64 ISA defines for this register class and operand shape");
  V_ASSERT(bytes >= need, "emit: the instruction transfers every byte of the virtual register");
  if (cls == kGpCls) V_WITNESS("gp"); else V_WITNESS("vec");
  if (need == 16) V_WITNESS("q");
}
HARNESS h_emit_a64_move() { move_case<kMove>(); }
HARNESS h_emit_a64_load() { move_case<kLoad>(); }
HARNESS h_emit_a64_save() { move_case<kSave>(); }

HARNESS h_emit_a64_jump() {
  a64::ARMRAPass& p = make_pass();
  uint32_t id = nondet_u32();
  Label l(id);
  Error err = p.a64::ARMRAPass::emit_jump(l);
  V_ASSERT(err == Error::kOk && rec::count == 1 && rec::nops == 1 && rec::id == a64::Inst::kIdB, "emit: jump emits one b");
  V_ASSERT(rec::o0.is_label() && rec::o0.id() == id, "emit: jump targets the given label");
  verif_observe(rec::o0.id());
  V_WITNESS("jump");
}
