// C05 / K1 — RALiveSpan / RALiveSpans (asmjit/core/radefs_p.h): the lemma behind bin_pack() in rapass.cpp,
//   "two virtual registers that share a physical register never have intersecting live ranges".
// bin_pack puts a work register into physical register p iff  tmp.non_overlapping_union_of(arena, live[p], reg.spans) == kOk
// and then replaces live[p] by tmp. Decided here, for every pair of lists of NX x NY spans (0..3 each) with symbolic endpoints:
//   * kByPass (refusal) is returned iff some span of x intersects some span of y, spans being half-open [a, b);
//   * on kOk the output holds exactly the NX+NY input spans, ordered by start, pairwise disjoint (so it is again a valid list:
//     the induction over the registers packed into p goes through);
//   * an arena failure is reported as kOutOfMemory and leaves the destination as it was;
//   * RALiveSpans::intersects() gives the same verdict as the refusal above.
// Representation invariant of a span list (what open_at/close_at in build_liveness and the union itself produce):
//   a_i < b_i  and  b_i <= a_(i+1).   (Lists produced by open_at alone have b_i < a_(i+1); unions may touch.)
#include <asmjit/core.h>
#include <asmjit/core/radefs_p.h>
#include "verif.h"
using namespace asmjit;

template<class T> union Raw { T v; Raw() noexcept {} ~Raw() noexcept {} };

// The Arena is environment (C18 checks it). One request per run is served from a typed pool of 32 spans (a malloc'ed byte block
// costs the solver 7 GB here instead of 1), reporting the size the real arena would report; it may fail.
static RALiveSpan pool[32];   // 256 bytes = what ArenaVector's growth rule requests for 5 or 6 spans (16 / 64 bytes for fewer; arenavector.cpp)
namespace arena_stub { static bool may_fail = false; static int n_allocs = 0, n_failed = 0; }
ASMJIT_BEGIN_NAMESPACE
void* Arena::_alloc_reusable(size_t size, Out<size_t> allocated_size) noexcept {
  arena_stub::n_allocs++;
  V_ASSERT(arena_stub::n_allocs == 1 && size <= sizeof(pool), "spans env: one request of at most 256 bytes per run");
  if (arena_stub::may_fail && nondet_bool()) { arena_stub::n_failed++; allocated_size = 0; return nullptr; }
  size_t slot = 0, asz = 0;
  if (!_get_reusable_slot_index(size, Out(slot), Out(asz))) asz = size;
  allocated_size = asz;
  return pool;
}
void Arena::_release_dynamic(void*, size_t) noexcept {}
ASMJIT_END_NAMESPACE
static Raw<Arena> g_arena_store;   // no block, nothing pooled: every request reaches the stand-in; free_reusable() only links the released storage into its slot list
static inline Arena& env_arena() {
  arena_stub::may_fail = false; arena_stub::n_allocs = arena_stub::n_failed = 0;
  for (unsigned i = 0; i < Arena::kReusableSlotCount; i++) g_arena_store.v._reusable_slots[i] = nullptr;
  return g_arena_store.v;
}

struct Sp { uint32_t a, b; };

// A valid list of N spans with symbolic endpoints, built by construction: first start anywhere in 32 bits, then widths (>= 1,
// or >= 0 when `allow_empty`) and gaps (>= 0). `small` only shapes the random native runs; the wide mode covers every list.
template<unsigned N>
static inline void make_list(Sp (&s)[3], bool allow_empty) {
  bool small = nondet_bool();
  uint64_t p = small ? uint64_t(nondet_u16()) : uint64_t(nondet_u32());
  for (unsigned i = 0; i < N; i++) {
    uint64_t gap = i == 0 ? 0 : (small ? uint64_t(nondet_u8()) : uint64_t(nondet_u32()));
    uint64_t w = small ? uint64_t(nondet_u8()) : uint64_t(nondet_u32());
    if (!allow_empty) w += 1;
    p += gap; s[i].a = uint32_t(p);
    V_ASSUME(p <= 0xFFFFFFFFu);
    p += w; s[i].b = uint32_t(p);
    V_ASSUME(p <= 0xFFFFFFFFu);
  }
}

template<unsigned N>
static inline void bind_list(RALiveSpans& l, RALiveSpan (&store)[3], const Sp (&s)[3]) {
  for (unsigned i = 0; i < N; i++) store[i].init(NodePosition(s[i].a), NodePosition(s[i].b));
  if (N) { l._data._data = store; l._data._size = N; l._data._capacity = 3; }
}

template<unsigned NX, unsigned NY>
static inline bool any_intersection(const Sp (&x)[3], const Sp (&y)[3]) {
  bool r = false;
  for (unsigned i = 0; i < NX; i++) for (unsigned j = 0; j < NY; j++) if (x[i].a < y[j].b && y[j].a < x[i].b) r = true;
  return r;
}

// --------------------------------------------------------------------------------------------------------------------------
// non_overlapping_union_of
// DST: 0 = destination empty (storage comes from the arena), 1 = destination holds 6 stale spans in its own storage of capacity 6
// (the state tmp_spans is in after a refused attempt or a swap), 2 = destination holds 2 stale spans, capacity 2 (must grow
// and release the old storage) - only when more than 2 spans are produced.
template<unsigned NX, unsigned NY, unsigned DST>
static void union_case() {
  Arena& arena = env_arena();
  Sp x[3], y[3];
  make_list<NX>(x, false); make_list<NY>(y, false);
  RALiveSpan xs[3], ys[3], stale[6];
  RALiveSpans lx, ly, out;
  bind_list<NX>(lx, xs, x); bind_list<NY>(ly, ys, y);
  for (unsigned i = 0; i < 6; i++) stale[i].init(NodePosition(nondet_u32()), NodePosition(nondet_u32()));
  uint32_t old_size = 0;
  if (DST == 1) { old_size = nondet_u8() % 7; out._data._data = stale; out._data._size = old_size; out._data._capacity = 6; }
  if (DST == 2) { old_size = 2; out._data._data = stale; out._data._size = 2; out._data._capacity = 2; }
  const bool needs_arena = DST == 0 ? (NX + NY) != 0 : DST == 2 ? (NX + NY) > 2 : false;
  arena_stub::may_fail = true;

  Error err = out.non_overlapping_union_of(arena, lx, ly);
  bool hit = any_intersection<NX, NY>(x, y);
  verif_observe(uint32_t(err)); verif_observe(hit);

  if (arena_stub::n_failed) {
    V_ASSERT(needs_arena, "spans: the arena is asked only when the destination is too small");
    V_ASSERT(err == Error::kOutOfMemory, "spans: arena failure is reported as out of memory");
    V_ASSERT(out._data._size == old_size && out._data._capacity == (DST == 0 ? 0u : DST == 1 ? 6u : 2u), "spans: destination untouched when the arena fails");
    if (needs_arena) V_WITNESS("union-oom");
    return;
  }
  V_ASSERT(err == Error::kOk || err == Error::kByPass, "spans: union returns ok or bypass when memory is there");
  V_ASSERT((err == Error::kByPass) == hit, "spans: overlap is reported iff some span of x intersects some span of y");
  if (err != Error::kOk) { if (NX && NY) V_WITNESS("union-refused"); return; }

  const unsigned N = NX + NY;
  V_ASSERT(out.size() == N, "spans: the union holds as many spans as both inputs");
  V_ASSERT(out._data._capacity >= N, "spans: the union fits its capacity");
  if (N) V_ASSERT(out.data() != nullptr, "spans: the union has storage");
  if (N) V_ASSERT((out.data() == stale) == (DST == 1), "spans: storage is reused iff it was large enough");
  const RALiveSpan* o = out.data();
  // every input span sits at its rank (own index + number of spans of the other list that start before it)
  for (unsigned i = 0; i < NX; i++) {
    unsigned pos = i; for (unsigned j = 0; j < NY; j++) if (y[j].a < x[i].a) pos++;
    for (unsigned k = 0; k < N; k++) if (pos == k) V_ASSERT(uint32_t(o[k].a) == x[i].a && uint32_t(o[k].b) == x[i].b, "spans: every span of x is in the union at its rank");
  }
  for (unsigned j = 0; j < NY; j++) {
    unsigned pos = j; for (unsigned i = 0; i < NX; i++) if (x[i].a < y[j].a) pos++;
    for (unsigned k = 0; k < N; k++) if (pos == k) V_ASSERT(uint32_t(o[k].a) == y[j].a && uint32_t(o[k].b) == y[j].b, "spans: every span of y is in the union at its rank");
  }
  // the union is a valid list again
  for (unsigned k = 0; k < N; k++) {
    V_ASSERT(o[k].is_valid(), "spans: every span of the union is non-empty");
    if (k + 1 < N) V_ASSERT(uint32_t(o[k].b) <= uint32_t(o[k + 1].a), "spans: the union is sorted and pairwise disjoint");
    verif_observe(uint32_t(o[k].a)); verif_observe(uint32_t(o[k].b));
  }
  // inputs are not modified
  for (unsigned i = 0; i < NX; i++) V_ASSERT(uint32_t(xs[i].a) == x[i].a && uint32_t(xs[i].b) == x[i].b, "spans: x is not modified");
  for (unsigned j = 0; j < NY; j++) V_ASSERT(uint32_t(ys[j].a) == y[j].a && uint32_t(ys[j].b) == y[j].b, "spans: y is not modified");
  V_ASSERT(lx.size() == NX && ly.size() == NY, "spans: input sizes are not modified");
  V_WITNESS("union-ok");
}

#define UNION_HARNESS(NX, NY, DST) HARNESS h_spans_union_##NX##_##NY##_d##DST() { union_case<NX, NY, DST>(); }
UNION_HARNESS(0, 0, 1) UNION_HARNESS(0, 3, 0) UNION_HARNESS(3, 0, 2)
UNION_HARNESS(1, 1, 0) UNION_HARNESS(1, 3, 1) UNION_HARNESS(3, 1, 2)
UNION_HARNESS(2, 2, 2) UNION_HARNESS(2, 3, 0) UNION_HARNESS(3, 2, 1)
UNION_HARNESS(3, 3, 0) UNION_HARNESS(3, 3, 1) UNION_HARNESS(3, 3, 2)

// Lists that contain empty spans [p, p) (build_liveness can leave one for a register that is live through a block without
// instructions): the refusal may then be conservative, but an accepted union still means that no two spans share a position.
template<unsigned NX, unsigned NY>
static void union_loose_case() {
  Arena& arena = env_arena();
  Sp x[3], y[3];
  make_list<NX>(x, true); make_list<NY>(y, true);
  RALiveSpan xs[3], ys[3];
  RALiveSpans lx, ly, out;
  bind_list<NX>(lx, xs, x); bind_list<NY>(ly, ys, y);
  Error err = out.non_overlapping_union_of(arena, lx, ly);
  bool hit = false;   // as sets of positions: [a, b) and [c, d) share a position iff max(a, c) < min(b, d)
  for (unsigned i = 0; i < NX; i++) for (unsigned j = 0; j < NY; j++) {
    uint32_t lo = x[i].a > y[j].a ? x[i].a : y[j].a, hi = x[i].b < y[j].b ? x[i].b : y[j].b;
    if (lo < hi) hit = true;
  }
  verif_observe(uint32_t(err)); verif_observe(hit);
  V_ASSERT(err == Error::kOk || err == Error::kByPass, "spans loose: union returns ok or bypass");
  if (err == Error::kOk) {
    V_ASSERT(!hit, "spans loose: an accepted union means no two spans share a position");
    V_ASSERT(out.size() == NX + NY, "spans loose: the union holds as many spans as both inputs");
    const RALiveSpan* o = out.data();
    for (unsigned k = 0; k < NX + NY; k++) {
      V_ASSERT(uint32_t(o[k].a) <= uint32_t(o[k].b), "spans loose: no span of the union is inverted");
      if (k + 1 < NX + NY) V_ASSERT(uint32_t(o[k].b) <= uint32_t(o[k + 1].a), "spans loose: the union is sorted and pairwise disjoint");
    }
    V_WITNESS("loose-ok");
  }
  else {
    if (!hit) V_WITNESS("loose-conservative-refusal");
    V_WITNESS("loose-refused");
  }
}
HARNESS h_spans_union_loose_3_3() { union_loose_case<3, 3>(); }
HARNESS h_spans_union_loose_2_3() { union_loose_case<2, 3>(); }

// --------------------------------------------------------------------------------------------------------------------------
// intersects(): same verdict as the refusal, no memory involved
template<unsigned NX, unsigned NY>
static void intersects_case() {
  Sp x[3], y[3];
  make_list<NX>(x, false); make_list<NY>(y, false);
  RALiveSpan xs[3], ys[3];
  RALiveSpans lx, ly;
  bind_list<NX>(lx, xs, x); bind_list<NY>(ly, ys, y);
  bool got = lx.intersects(ly);
  bool hit = any_intersection<NX, NY>(x, y);
  verif_observe(got);
  V_ASSERT(got == hit, "spans: intersects is true iff some span of x intersects some span of y");
  V_ASSERT(RALiveSpans::intersects(ly, lx) == hit, "spans: intersects is symmetric");
  if (got) V_WITNESS("intersects-yes"); else V_WITNESS("intersects-no");
}
HARNESS h_spans_intersects() {
  switch (nondet_u8() % 6) {
    case 0: intersects_case<0, 2>(); break;
    case 1: intersects_case<1, 1>(); break;
    case 2: intersects_case<1, 3>(); break;
    case 3: intersects_case<2, 2>(); break;
    case 4: intersects_case<3, 2>(); break;
    default: intersects_case<3, 3>(); break;
  }
}

// --------------------------------------------------------------------------------------------------------------------------
// open_at / close_at / is_open / width / RALiveSpan helpers: one step from a valid list of N spans.
// build_liveness calls open_at(start, end) with start < end and positions that never run backwards: start >= the start of
// the last span; close_at(end) with end above the start of the last span.
template<unsigned N, bool SPARE>
static void open_case() {
  Arena& arena = env_arena();
  Sp x[3];
  make_list<N>(x, false);
  RALiveSpan st[4];
  RALiveSpans l;
  for (unsigned i = 0; i < N; i++) st[i].init(NodePosition(x[i].a), NodePosition(x[i].b));
  if (N || SPARE) { l._data._data = st; l._data._size = N; l._data._capacity = SPARE ? N + 1 : N; }
  if (N == 0 && !SPARE) { /* empty vector without storage */ }

  V_ASSERT(l.is_open() == (N > 0 && x[N ? N - 1 : 0].b == 0xFFFFFFFFu), "spans: is_open is true iff the last span ends at infinity");
  uint32_t wsum = 0; for (unsigned i = 0; i < N; i++) wsum += x[i].b - x[i].a;
  V_ASSERT(l.width() == wsum, "spans: width is the sum of the span widths");
  for (unsigned i = 0; i < N; i++) V_ASSERT(st[i].is_valid() && st[i].width() == x[i].b - x[i].a, "spans: span width and validity");

  uint32_t start = nondet_u32(), end = nondet_u32();
  V_ASSUME(start < end);
  if (N) V_ASSUME(start >= x[N - 1].a);
  arena_stub::may_fail = true;
  if (nondet_bool()) {
    bool was_open = nondet_bool();
    Error err = l.open_at(arena, NodePosition(start), NodePosition(end), was_open);
    verif_observe(uint32_t(err)); verif_observe(was_open);
    bool merges = N > 0 && x[N ? N - 1 : 0].b >= start;
    if (err != Error::kOk) {
      V_ASSERT(err == Error::kOutOfMemory && arena_stub::n_failed == 1, "spans: open_at fails only when the arena fails");
      V_ASSERT(!merges && !SPARE, "spans: open_at needs memory only to append beyond the capacity");
      V_ASSERT(l.size() == N, "spans: a failed open_at leaves the list as it was");
      V_WITNESS("open-oom");
      return;
    }
    const RALiveSpan* o = l.data();
    if (merges) {
      V_ASSERT(l.size() == N, "spans: open_at that reaches the last span extends it");
      V_ASSERT(uint32_t(o[N ? N - 1 : 0].a) == x[N ? N - 1 : 0].a && uint32_t(o[N ? N - 1 : 0].b) == end, "spans: the extended span keeps its start and ends at the new end");
      V_ASSERT(was_open == (x[N ? N - 1 : 0].b > start), "spans: was_open iff the last span covered the new start");
      V_WITNESS("open-merge");
    }
    else {
      V_ASSERT(l.size() == N + 1, "spans: open_at beyond the last span appends one span");
      V_ASSERT(uint32_t(o[N].a) == start && uint32_t(o[N].b) == end, "spans: the appended span is the requested one");
      V_ASSERT(!was_open, "spans: an appended span was not open before");
      V_WITNESS("open-append");
    }
    unsigned n2 = merges ? N : N + 1;
    for (unsigned i = 0; i + 1 < n2 && i + 1 < N + 1; i++) {
      if (i + 1 < N) V_ASSERT(uint32_t(o[i].a) == x[i].a && uint32_t(o[i].b) == x[i].b, "spans: open_at leaves earlier spans alone");
      V_ASSERT(uint32_t(o[i].b) <= uint32_t(o[i + 1].a), "spans: the list is sorted and disjoint after open_at");
    }
    for (unsigned i = 0; i < N + 1; i++) if (i < n2) V_ASSERT(o[i].is_valid(), "spans: every span is non-empty after open_at");
    V_ASSERT(l.is_open() == (end == 0xFFFFFFFFu), "spans: is_open after open_at iff the end is infinity");
  }
  else if (N) {
    uint32_t cend = nondet_u32();
    V_ASSUME(cend > x[N - 1].a);
    l.close_at(NodePosition(cend));
    const RALiveSpan* o = l.data();
    V_ASSERT(l.size() == N, "spans: close_at keeps the number of spans");
    for (unsigned i = 0; i < N; i++) V_ASSERT(uint32_t(o[i].a) == x[i].a && uint32_t(o[i].b) == (i + 1 == N ? cend : x[i].b), "spans: close_at changes only the end of the last span");
    V_ASSERT(o[N - 1].is_valid(), "spans: the closed span is non-empty");
    V_WITNESS("close");
  }
}
HARNESS h_spans_open_close() {
  switch (nondet_u8() % 6) {
    case 0: open_case<0, false>(); break;
    case 1: open_case<0, true>(); break;
    case 2: open_case<1, false>(); break;
    case 3: open_case<2, true>(); break;
    case 4: open_case<3, false>(); break;
    default: open_case<3, true>(); break;
  }
}
