// C05 — shared by h_assign.cpp (K2) and h_decide.cpp (K4b): the model of a consistent RAAssignment state and the real maps it
// stands for. See h_assign.cpp for the representation invariant.
#pragma once
#include <asmjit/core.h>
#include <asmjit/core/raassignment_p.h>
#include "verif.h"
using namespace asmjit;

template<class T> union Raw { T v; Raw() noexcept {} ~Raw() noexcept {} };

// sizes: default 2 groups x 8 physical registers, 6 work registers; with -DC05_X64 the x86-64 register file (16 GP, 32 vector,
// 8 mask, 8 MM registers) and 8 work registers
#ifdef C05_X64
static const unsigned G = 4, W = 8, TOTAL = 64, GMASK = 3, PMASK = 31;
static const unsigned PC[4] = { 16, 32, 8, 8 }, BASE[4] = { 0, 16, 48, 56 };
#else
static const unsigned G = 2, W = 6, TOTAL = 16, GMASK = 1, PMASK = 7;
static const unsigned PC[4] = { 8, 8, 0, 0 }, BASE[4] = { 0, 8, 16, 16 };
#endif
static const unsigned P = 8;   // group size of the default layout (h_decide.cpp)
static const unsigned NONE = RAAssignment::kPhysNone;
// the two maps as the pass lays them out (PhysToWorkMap::size_of(16) = 96 bytes, WorkToPhysMap::size_of(6) = 8 bytes)
struct PMap { RARegMask assigned; RARegMask dirty; RAWorkId work_ids[TOTAL]; };
struct WMap { uint8_t phys_ids[8]; };
static_assert(sizeof(PMap) == 32 + 4 * TOTAL && offsetof(PMap, work_ids) == offsetof(RAAssignment::PhysToWorkMap, work_ids), "layout");

struct Model { uint8_t loc[W]; bool dirty[W]; uint8_t grp[W]; };

// separate objects (not one struct): an access with a symbolic index then costs the solver one small object, not all of them
static Raw<RAWorkReg> g_regs[W];
static RAWorkReg* g_reg_ptrs[W];
static ArenaVector<RAWorkReg*> g_work_regs;
struct Env {
  PMap& pm; WMap& wm; RAAssignment& as;
};
#define ENV(e) PMap e##_pm; WMap e##_wm; RAAssignment e##_as; Env e{e##_pm, e##_wm, e##_as}

static inline void model_nondet(Model& m) {
  for (unsigned w = 0; w < W; w++) {
    m.grp[w] = nondet_u8() & GMASK;
    uint8_t l = nondet_u8() & (2 * PMASK + 1);
    m.loc[w] = l < PC[m.grp[w]] ? l : NONE;
    m.dirty[w] = m.loc[w] != NONE && nondet_bool();
  }
  for (unsigned a = 0; a < W; a++) for (unsigned b = a + 1; b < W; b++)
    V_ASSUME(!(m.grp[a] == m.grp[b] && m.loc[a] != NONE && m.loc[a] == m.loc[b]));   // partial injection per group
}

// the maps a model stands for
static inline void maps_of(const Model& m, PMap& pm, WMap& wm) {
  for (unsigned g = 0; g < 4; g++) { pm.assigned._masks[g] = 0; pm.dirty._masks[g] = 0; }
  for (unsigned i = 0; i < TOTAL; i++) {              // one flat loop over the map entries: i = BASE[g] + p
    const unsigned g = i < BASE[1] ? 0 : i < BASE[2] ? 1 : i < BASE[3] ? 2 : 3, p = i - BASE[g];
    RAWorkId id = kBadWorkId; bool d = false;
    for (unsigned w = 0; w < W; w++) if (m.grp[w] == g && m.loc[w] == p) { id = RAWorkId(w); d = m.dirty[w]; }
    pm.work_ids[i] = id;
    if (id != kBadWorkId) pm.assigned._masks[g] |= 1u << p;
    if (d) pm.dirty._masks[g] |= 1u << p;
  }
  for (unsigned w = 0; w < 8; w++) wm.phys_ids[w] = w < W ? m.loc[w] : 0xFF;
}

static inline void env_init(const Env& e, const Model& m) {
  for (unsigned w = 0; w < W; w++) {
    RAWorkReg& r = g_regs[w].v;
    r._work_id = RAWorkId(w);
    r._signature = OperandSignature::from_op_type(OperandType::kReg) | OperandSignature::from_reg_group(RegGroup(m.grp[w]));
    g_reg_ptrs[w] = &r;
  }
  g_work_regs._data = g_reg_ptrs; g_work_regs._size = W; g_work_regs._capacity = W;
  RARegCount pc; pc.reset(); for (unsigned g = 0; g < G; g++) pc.set(RegGroup(g), PC[g]);
  e.as.init_layout(pc, g_work_regs);
  maps_of(m, e.pm, e.wm);
  e.as.init_maps(reinterpret_cast<RAAssignment::PhysToWorkMap*>(&e.pm), reinterpret_cast<RAAssignment::WorkToPhysMap*>(&e.wm));
}
