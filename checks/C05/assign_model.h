// C05 — shared by h_assign.cpp (K2) and h_decide.cpp (K4b): the model of a consistent RAAssignment state and the real maps it
// stands for. See h_assign.cpp for the representation invariant.
#pragma once
#include <asmjit/core.h>
#include <asmjit/core/raassignment_p.h>
#include "verif.h"
using namespace asmjit;

template<class T> union Raw { T v; Raw() noexcept {} ~Raw() noexcept {} };

static const unsigned G = 2, P = 8, W = 6, NONE = RAAssignment::kPhysNone;
// the two maps as the pass lays them out (PhysToWorkMap::size_of(16) = 96 bytes, WorkToPhysMap::size_of(6) = 8 bytes)
struct PMap { RARegMask assigned; RARegMask dirty; RAWorkId work_ids[G * P]; };
struct WMap { uint8_t phys_ids[8]; };
static_assert(sizeof(PMap) == 96 && offsetof(PMap, work_ids) == offsetof(RAAssignment::PhysToWorkMap, work_ids), "layout");

struct Model { uint8_t loc[W]; bool dirty[W]; uint8_t grp[W]; };

// separate objects (not one struct): an access with a symbolic index then costs the solver one small object, not all of them
static Raw<RAWorkReg> g_regs[W];
static RAWorkReg* g_reg_ptrs[W];
static ArenaVector<RAWorkReg*> g_work_regs;
struct Env {
  PMap& pm; WMap& wm; RAAssignment& as;
};
#define ENV(e) PMap e##_pm; WMap e##_wm; RAAssignment e##_as; Env e{e##_pm, e##_wm, e##_as}

static inline void model_nondet(Model& m) {
  for (unsigned w = 0; w < W; w++) {
    m.grp[w] = nondet_u8() & 1;
    uint8_t l = nondet_u8() & 15;
    m.loc[w] = l < P ? l : NONE;
    m.dirty[w] = m.loc[w] != NONE && nondet_bool();
  }
  for (unsigned a = 0; a < W; a++) for (unsigned b = a + 1; b < W; b++)
    V_ASSUME(!(m.grp[a] == m.grp[b] && m.loc[a] != NONE && m.loc[a] == m.loc[b]));   // partial injection per group
}

// the maps a model stands for
static inline void maps_of(const Model& m, PMap& pm, WMap& wm) {
  for (unsigned g = 0; g < 4; g++) { pm.assigned._masks[g] = 0; pm.dirty._masks[g] = 0; }
  for (unsigned g = 0; g < G; g++) for (unsigned p = 0; p < P; p++) {
    RAWorkId id = kBadWorkId; bool d = false;
    for (unsigned w = 0; w < W; w++) if (m.grp[w] == g && m.loc[w] == p) { id = RAWorkId(w); d = m.dirty[w]; }
    pm.work_ids[g * P + p] = id;
    if (id != kBadWorkId) pm.assigned._masks[g] |= 1u << p;
    if (d) pm.dirty._masks[g] |= 1u << p;
  }
  for (unsigned w = 0; w < W; w++) wm.phys_ids[w] = m.loc[w];
  wm.phys_ids[6] = wm.phys_ids[7] = 0xFF;
}

static inline void env_init(const Env& e, const Model& m) {
  for (unsigned w = 0; w < W; w++) {
    RAWorkReg& r = g_regs[w].v;
    r._work_id = RAWorkId(w);
    r._signature = OperandSignature::from_op_type(OperandType::kReg) | OperandSignature::from_reg_group(RegGroup(m.grp[w]));
    g_reg_ptrs[w] = &r;
  }
  g_work_regs._data = g_reg_ptrs; g_work_regs._size = W; g_work_regs._capacity = W;
  RARegCount pc; pc.reset(); pc.set(RegGroup(0), P); pc.set(RegGroup(1), P);
  e.as.init_layout(pc, g_work_regs);
  maps_of(m, e.pm, e.wm);
  e.as.init_maps(reinterpret_cast<RAAssignment::PhysToWorkMap*>(&e.pm), reinterpret_cast<RAAssignment::WorkToPhysMap*>(&e.wm));
}
