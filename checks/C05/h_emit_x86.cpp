// C05 / K5 (x86) — "the instructions the allocator inserts transfer every byte of the virtual register".
// The local allocator changes where a value lives only through X86RAPass::emit_move / emit_swap / emit_load / emit_save
// (asmjit/x86/x86rapass.cpp, x86::EmitHelper::emit_reg_move in x86emithelper.cpp). For a work register of ANY type the Compiler can
// create (symbolic TypeId; register signature and virtual size/alignment derived from it exactly as BaseCompiler::_new_reg /
// new_virt_reg do, through the real ArchUtils::type_id_to_reg_signature), symbolic physical ids and SSE / AVX / AVX-512 mode:
//   * exactly one instruction is emitted, its operands are the given physical registers (of the work register's group) and, for
//     load/save, the work register's home slot: a memory operand flagged "register home" whose base is the virtual id, no index, no
//     offset - the operand rewrite() later replaces by [sp + slot offset];
//   * the instruction is one the x86 ISA defines for that register class and operand shape (reference table below, written from the
//     SDM), and the number of bytes it transfers is >= the size of the virtual register's type (swap: of the WIDER of the two);
//   * a load/save touches no more bytes of memory than the home slot has (homes are packed by K3 without padding), and the slot
//     created on demand is a register home of the virtual register's size and alignment addressed from the stack pointer.
// The pass, work registers and virtual registers are hand-built typed objects with only the fields these functions read; the
// emitter is raw storage whose BaseEmitter::_emitI is a recording stub.
#include <asmjit/x86.h>
#include <asmjit/core/archtraits.h>
#include <asmjit/x86/x86emithelper_p.h>
#include <asmjit/x86/x86rapass_p.h>
#include "verif.h"
using namespace asmjit;

template<class T> union Raw { T v; Raw() noexcept {} ~Raw() noexcept {} };

namespace rec { static uint32_t count; static InstId id; static Operand_ o0, o1; static uint32_t nops; }
// environment: recording emitter; typed arena stand-in for the one stack slot and the slot vector a load/save may create
static RAStackSlot g_slot_obj;
static RAStackSlot* g_slot_vec[16];
static int g_n_oneshot, g_n_reusable;
ASMJIT_BEGIN_NAMESPACE
Error BaseEmitter::_emitI(InstId inst_id, const Operand_& a, const Operand_& b) { rec::count++; rec::id = inst_id; rec::o0 = a; rec::o1 = b; rec::nops = 2; return Error::kOk; }
Error BaseEmitter::_emitI(InstId inst_id, const Operand_& a) { rec::count++; rec::id = inst_id; rec::o0 = a; rec::nops = 1; return Error::kOk; }
void* Arena::_alloc_oneshot(size_t size) noexcept {
  V_ASSERT(size <= sizeof(RAStackSlot) + 4 && g_n_oneshot == 0, "emit env: one stack slot object is requested at most");
  g_n_oneshot++; return &g_slot_obj;
}
void* Arena::_alloc_reusable(size_t size, Out<size_t> allocated_size) noexcept {
  V_ASSERT(size <= sizeof(g_slot_vec) && g_n_reusable == 0, "emit env: one slot vector block is requested at most");
  g_n_reusable++; allocated_size = size; return g_slot_vec;
}
void Arena::_release_dynamic(void*, size_t) noexcept {}
ASMJIT_END_NAMESPACE

alignas(16) static uint64_t g_emitter_mem[(sizeof(x86::Compiler) + 7) / 8];   // never constructed; only _inline_comment is written
static Raw<Arena> g_arena;
static Raw<x86::X86RAPass> g_pass;
static Raw<VirtReg> g_vreg[2];
static Raw<RAWorkReg> g_wreg[2];
static RAStackSlot g_old_slot;          // a home slot that exists already

template<bool AVX, bool AVX512>
static inline x86::X86RAPass& make_pass() {
  x86::X86RAPass& p = g_pass.v;
  reinterpret_cast<void**>(&g_pass)[1] = g_emitter_mem;                      // Pass::_cb (reference member after the vptr)
  V_ASSERT(static_cast<void*>(&p.cb()) == static_cast<void*>(g_emitter_mem), "emit env: the pass is bound to the recording emitter");
  p._emit_helper.reset(reinterpret_cast<BaseEmitter*>(g_emitter_mem), AVX, AVX512);
  p._diagnostic_options = DiagnosticOptions::kNone;
  p._sp = x86::rsp;
  for (unsigned i = 0; i < Arena::kReusableSlotCount; i++) g_arena.v._reusable_slots[i] = nullptr;
  p._stack_allocator.reset(&g_arena.v);
  rec::count = 0; rec::id = 0; rec::nops = 0; g_n_oneshot = g_n_reusable = 0;
  return p;
}

// a work register as the Compiler + RA pass create it for `type_id`; false if the Compiler refuses the type
static inline bool make_work_reg(unsigned k, TypeId type_id, uint32_t virt_index) {
  TypeId t2 = type_id; OperandSignature sig{0};
  if (ArchUtils::type_id_to_reg_signature(Arch::kX64, type_id, Out(t2), Out(sig)) != Error::kOk) return false;
  uint32_t size = TypeUtils::size_of(t2);
  uint32_t alog2 = 31 - Support::clz((size < 64 ? size : 64u) | 1u);
  VirtReg& v = g_vreg[k].v;
  v._id = Operand::virt_index_to_virt_id(virt_index); v._virt_size = size; v._reg_type = sig.reg_type();
  v._reg_flags = VirtReg::_flags_from_alignment_log2(alog2); v._type_id = t2;
  RAWorkReg& w = g_wreg[k].v;
  w._work_id = RAWorkId(k); w._virt_id = v._id; w._virt_reg = &v; w._signature = sig; w._stack_slot = nullptr; w._flags = RAWorkRegFlags::kNone;
  return true;
}

// ---- reference: x86 register classes and what the data-movement instructions used here transfer (Intel SDM vol. 2) -------------
enum Cls { kNoCls, kGpCls, kVecCls, kKCls, kMmCls };
static inline Cls cls_of(const Operand_& o) {
  if (!o.is_reg()) return kNoCls;
  switch (o.as<Reg>().reg_type()) {
    case RegType::kGp8Lo: case RegType::kGp16: case RegType::kGp32: case RegType::kGp64: return kGpCls;
    case RegType::kVec128: case RegType::kVec256: case RegType::kVec512: return kVecCls;
    case RegType::kMask: return kKCls;
    case RegType::kX86_Mm: return kMmCls;
    default: return kNoCls;
  }
}
static inline uint32_t reg_bytes(const Operand_& o) {
  switch (o.as<Reg>().reg_type()) {
    case RegType::kGp8Lo: return 1; case RegType::kGp16: return 2; case RegType::kGp32: return 4; case RegType::kGp64: return 8;
    case RegType::kVec128: return 16; case RegType::kVec256: return 32; case RegType::kVec512: return 64;
    case RegType::kMask: return 8; case RegType::kX86_Mm: return 8;
    default: return 0;
  }
}
// Bytes moved by `id r, x` / `id x, r` where r is a register and x a register of the same type or a memory operand; 0 = not a
// form the ISA has for this register class. `avx` / `avx512` tell whether VEX / EVEX encodings exist for the function at all.
// The width comes from the mnemonic and the register; the size annotation of the memory operand is checked by mem_size_ok().
static inline uint32_t transfer_bytes(InstId id, const Operand_& r, const Operand_& x, bool avx, bool avx512) {
  Cls c = cls_of(r); uint32_t rb = reg_bytes(r);
  bool x_mem = x.is_mem();
  uint32_t ms = x_mem ? x.as<x86::Mem>().size() : 0;
  bool same_reg = x.is_reg() && x.as<Reg>().reg_type() == r.as<Reg>().reg_type();
  bool xmm = c == kVecCls && rb == 16;
  switch (id) {
    case x86::Inst::kIdMov:     return c == kGpCls && (same_reg || x_mem) ? rb : 0;
    case x86::Inst::kIdXchg:    return c == kGpCls && same_reg ? rb : 0;
    case x86::Inst::kIdMovzx:   return c == kGpCls && rb >= 4 && x_mem && (ms == 1 || ms == 2) ? ms : 0;          // reads ms bytes, clears the rest of r32/r64
    case x86::Inst::kIdMovd:    return (c == kMmCls || xmm) && x_mem ? 4 : 0;
    case x86::Inst::kIdMovq:    return ((c == kMmCls && (same_reg || x_mem)) || (xmm && x_mem)) ? 8 : 0;
    case x86::Inst::kIdVmovd:   return avx && xmm && x_mem ? 4 : 0;
    case x86::Inst::kIdVmovq:   return avx && xmm && x_mem ? 8 : 0;
    case x86::Inst::kIdMovss:   return xmm && x_mem ? 4 : 0;
    case x86::Inst::kIdVmovss:  return avx && xmm && x_mem ? 4 : 0;
    case x86::Inst::kIdMovsd:   return xmm && x_mem ? 8 : 0;
    case x86::Inst::kIdVmovsd:  return avx && xmm && x_mem ? 8 : 0;
    case x86::Inst::kIdMovaps: case x86::Inst::kIdMovapd: case x86::Inst::kIdMovdqa:
      return xmm && (same_reg || x_mem) ? 16 : 0;
    case x86::Inst::kIdVmovaps: case x86::Inst::kIdVmovapd:
      return avx && c == kVecCls && (rb <= 32 || avx512) && (same_reg || x_mem) ? rb : 0;
    case x86::Inst::kIdVmovdqa:
      return avx && c == kVecCls && rb <= 32 && (same_reg || x_mem) ? rb : 0;
    case x86::Inst::kIdVmovdqa32:
      return avx512 && c == kVecCls && (same_reg || x_mem) ? rb : 0;
    case x86::Inst::kIdKmovb:   return avx512 && c == kKCls && (same_reg || x_mem) ? 1 : 0;
    case x86::Inst::kIdKmovw:   return avx512 && c == kKCls && (same_reg || x_mem) ? 2 : 0;
    case x86::Inst::kIdKmovd:   return avx512 && c == kKCls && (same_reg || x_mem) ? 4 : 0;
    case x86::Inst::kIdKmovq:   return avx512 && c == kKCls && (same_reg || x_mem) ? 8 : 0;
    default: return 0;
  }
}
// A memory operand carries no size or the number of bytes the instruction accesses (anything else is refused by the validator).
static inline bool mem_size_ok(const Operand_& x, uint32_t bytes) {
  if (!x.is_mem()) return true;
  uint32_t ms = x.as<x86::Mem>().size();
  return ms == 0 || ms == bytes;
}
static inline Cls cls_of_group(RegGroup g) { return g == RegGroup::kGp ? kGpCls : g == RegGroup::kVec ? kVecCls : g == RegGroup::kMask ? kKCls : g == RegGroup::kX86_MM ? kMmCls : kNoCls; }

// the CPU features the function must have enabled for a register of this type to exist at all
static inline bool type_usable(TypeId t, bool avx, bool avx512) {
  if (TypeUtils::is_vec256(t)) return avx;
  if (TypeUtils::is_vec512(t) || TypeUtils::is_mask(t)) return avx512;
  return true;
}

static inline void check_home_operand(const Operand_& m, x86::X86RAPass& p, RAWorkReg& w, bool had_slot, uint32_t bytes) {
  V_ASSERT(m.is_mem() && m.as<BaseMem>().is_reg_home() && m.as<BaseMem>().base_id() == w.virt_id(), "emit: the memory operand is the home of this virtual register");
  V_ASSERT(!m.as<BaseMem>().has_index() && m.as<BaseMem>().offset() == 0 && m.as<BaseMem>().base_type() == RegType::kGp64, "emit: the home operand has the stack pointer type as base, no index, no offset");
  RAStackSlot* s = w.stack_slot();
  V_ASSERT(s != nullptr && s == (had_slot ? &g_old_slot : &g_slot_obj), "emit: the work register has a home slot afterwards (the existing one is kept)");
  V_ASSERT(s->size() == w.virt_reg()->virt_size() && s->alignment() == w.virt_reg()->alignment() && s->is_reg_home() && s->base_reg_id() == x86::Gp::kIdSp, "emit: the home slot has the size and alignment of the virtual register and is addressed from the stack pointer");
  if (!had_slot) V_ASSERT(p._stack_allocator.slot_count() == 1 && p._stack_allocator._slots[0] == s && w.has_flag(RAWorkRegFlags::kStackUsed), "emit: a slot created on demand is registered with the stack allocator");
  V_ASSERT(bytes <= s->size(), "emit: the instruction touches no memory beyond the home slot");
}

enum Op { kMove, kLoad, kSave };
// KF: 0 = everything except the regions of the open known findings, 1 = only the region of C05A, 2 = only the region of C05B
template<bool AVX, bool AVX512, Op OP, int KF>
static void move_case() {
  x86::X86RAPass& p = make_pass<AVX, AVX512>();
  TypeId t = TypeId(nondet_u8());
  bool ok = make_work_reg(0, t, nondet_u16());
  V_ASSUME(ok);
  RAWorkReg& w = g_wreg[0].v;
  t = w.type_id();
  V_ASSUME(type_usable(t, AVX, AVX512));
  const bool in_c05a = OP != kMove && (t == TypeId::kFloat32 || t == TypeId::kFloat64);   // known finding C05A
  const bool in_c05b = OP != kMove && t == TypeId::kMmx32;                                  // known finding C05B
  if (KF == 0) {
#if KF_C05A
    V_ASSUME(!in_c05a);
#endif
#if KF_C05B
    V_ASSUME(!in_c05b);
#endif
  }
  if (KF == 1) V_ASSUME(in_c05a);
  if (KF == 2) V_ASSUME(in_c05b);
  const uint32_t need = TypeUtils::size_of(t);
  const Cls cls = cls_of_group(w.group());
  V_ASSERT(cls != kNoCls && need != 0, "emit: a virtual register has a register class and a size");
  uint32_t a = nondet_u8() & 31, b = nondet_u8() & 31;
  bool had_slot = false;
  if (OP != kMove && nondet_bool()) {      // the work register already has its home
    had_slot = true;
    g_old_slot._base_reg_id = x86::Gp::kIdSp; g_old_slot._alignment = uint8_t(w.virt_reg()->alignment()); g_old_slot._flags = RAStackSlot::kFlagRegHome; g_old_slot._size = need;
    w._stack_slot = &g_old_slot;
  }
  Error err = OP == kMove ? p.x86::X86RAPass::emit_move(&w, a, b) : OP == kLoad ? p.x86::X86RAPass::emit_load(&w, a) : p.x86::X86RAPass::emit_save(&w, a);
  verif_observe(uint32_t(err)); verif_observe(rec::id); verif_observe(rec::count); verif_observe(uint32_t(t));
  V_ASSERT(err == Error::kOk && rec::count == 1 && rec::nops == 2, "emit: exactly one two-operand instruction is emitted");
  const Operand_& o0 = rec::o0; const Operand_& o1 = rec::o1;
  uint32_t bytes = 0;
  if (OP == kMove) {
    V_ASSERT(cls_of(o0) == cls && cls_of(o1) == cls && o0.id() == a && o1.id() == b, "emit: move goes from the given source to the given destination register of the class");
    bytes = transfer_bytes(rec::id, o0, o1, AVX, AVX512);
  }
  else if (OP == kLoad) {
    V_ASSERT(cls_of(o0) == cls && o0.id() == a, "emit: load targets the given register of the class");
    bytes = transfer_bytes(rec::id, o0, o1, AVX, AVX512);
    check_home_operand(o1, p, w, had_slot, bytes);
  }
  else {
    V_ASSERT(cls_of(o1) == cls && o1.id() == a, "emit: save stores the given register of the class");
    V_ASSERT(rec::id != x86::Inst::kIdMovzx, "emit: a save is not an extending load");
    bytes = transfer_bytes(rec::id, o1, o0, AVX, AVX512);
    check_home_operand(o0, p, w, had_slot, bytes);
  }
  verif_observe(bytes);
  V_ASSERT(bytes != 0, "emit: the instruction is one the x86 ISA defines for this register class and operand shape");
  V_ASSERT(mem_size_ok(o0, bytes) && mem_size_ok(o1, bytes), "emit: a memory operand is annotated with the width the instruction accesses or not at all");
  V_ASSERT(bytes >= need, "emit: the instruction transfers every byte of the virtual register");
  if (KF == 0) {
    if (cls == kGpCls) V_WITNESS("gp"); else if (cls == kVecCls) V_WITNESS("vec"); else if (cls == kMmCls) V_WITNESS("mm");
    if (AVX512 && cls == kKCls) V_WITNESS("mask");
  }
  else V_WITNESS("known-finding-region");
}

template<Op OP, int KF>
static inline void move_dispatch() {
  switch (nondet_u8() % 3) {
    case 0: move_case<false, false, OP, KF>(); break;
    case 1: move_case<true, false, OP, KF>(); break;
    default: move_case<true, true, OP, KF>(); break;
  }
}
HARNESS h_emit_x86_move() { move_dispatch<kMove, 0>(); }
HARNESS h_emit_x86_load() { move_dispatch<kLoad, 0>(); }
HARNESS h_emit_x86_save() { move_dispatch<kSave, 0>(); }
// companions confined to the regions of the known findings (see known_findings.jsonl)
HARNESS h_emit_x86_load_kf_C05A() { move_dispatch<kLoad, 1>(); }
HARNESS h_emit_x86_save_kf_C05A() { move_dispatch<kSave, 1>(); }
HARNESS h_emit_x86_load_kf_C05B() { move_dispatch<kLoad, 2>(); }
HARNESS h_emit_x86_save_kf_C05B() { move_dispatch<kSave, 2>(); }

// emit_swap: only general-purpose registers are ever swapped (ArchTraits::has_inst_reg_swap is true for the GP group only), both
// work registers hold integer types of any width (int8 .. uint64)
HARNESS h_emit_x86_swap() {
  x86::X86RAPass& p = make_pass<false, false>();
  V_ASSERT(ArchTraits::by_arch(Arch::kX64).has_inst_reg_swap(RegGroup::kGp) && !ArchTraits::by_arch(Arch::kX64).has_inst_reg_swap(RegGroup::kVec) &&
           !ArchTraits::by_arch(Arch::kX64).has_inst_reg_swap(RegGroup::kMask) && !ArchTraits::by_arch(Arch::kX64).has_inst_reg_swap(RegGroup::kX86_MM), "emit: x86 swaps general-purpose registers only");
  TypeId ta = TypeId(uint32_t(TypeId::kInt8) + (nondet_u8() & 7)), tb = TypeId(uint32_t(TypeId::kInt8) + (nondet_u8() & 7));
  bool ok = make_work_reg(0, ta, nondet_u16()) && make_work_reg(1, tb, nondet_u16());
  V_ASSERT(ok, "emit: every integer type has a register on x86-64");
  uint32_t a = nondet_u8() & 15, b = nondet_u8() & 15;
  Error err = p.x86::X86RAPass::emit_swap(&g_wreg[0].v, a, &g_wreg[1].v, b);
  verif_observe(uint32_t(err)); verif_observe(rec::id);
  V_ASSERT(err == Error::kOk && rec::count == 1 && rec::nops == 2, "emit: swap emits exactly one two-operand instruction");
  V_ASSERT(rec::id == x86::Inst::kIdXchg && cls_of(rec::o0) == kGpCls && cls_of(rec::o1) == kGpCls && rec::o0.id() == a && rec::o1.id() == b, "emit: swap is xchg of the two given general-purpose registers");
  uint32_t bytes = transfer_bytes(rec::id, rec::o0, rec::o1, false, false);
  uint32_t sa = TypeUtils::size_of(ta), sb = TypeUtils::size_of(tb);
  verif_observe(bytes);
  V_ASSERT(bytes != 0, "emit: swap operands have one width");
  V_ASSERT(bytes >= (sa > sb ? sa : sb), "emit: swap exchanges every byte of the wider of the two virtual registers");
  if (sa != sb) V_WITNESS("swap-mixed-widths"); else V_WITNESS("swap-same-width");
  if (bytes == 8) V_WITNESS("swap-64");
}

HARNESS h_emit_x86_jump() {
  x86::X86RAPass& p = make_pass<false, false>();
  uint32_t id = nondet_u32();
  Label l(id);
  Error err = p.x86::X86RAPass::emit_jump(l);
  V_ASSERT(err == Error::kOk && rec::count == 1 && rec::nops == 1 && rec::id == x86::Inst::kIdJmp, "emit: jump emits one jmp");
  V_ASSERT(rec::o0.is_label() && rec::o0.id() == id, "emit: jump targets the given label");
  verif_observe(rec::o0.id());
  V_WITNESS("jump");
}
