// C05 / K2 — RAAssignment (asmjit/core/raassignment_p.h): the lemma
//   "the allocator's idea of where each value lives is a partial injection at every step".
// One operation from an ARBITRARY CONSISTENT state. Sizes: 2 register groups x 8 physical registers (groups 2 and 3 have no
// registers), 6 work registers whose group (0 or 1) is symbolic; the *_x64 harnesses (unit assign_x64, -DC05_X64) use the x86-64
// register file 16 + 32 + 8 + 8 in 4 groups and 8 work registers. A consistent state is fully described by a model
//   loc[w] in {none, 0..7}  (injective among the work registers of one group),   dirty[w] (only if loc[w] != none)
// and is the following contents of the real maps:
//   WorkToPhysMap.phys_ids[w]          = loc[w] or kPhysNone
//   PhysToWorkMap.work_ids[idx(g) + p] = the w with group(w) == g and loc[w] == p, or kBadWorkId
//   PhysToWorkMap.assigned[g] bit p    = such a w exists;    dirty[g] bit p = it exists and dirty[w]   (dirty subset of assigned)
// Every such state is generated (model symbolic, maps derived from it through concrete indices); after the operation the real
// maps must be exactly the maps derived from the updated model - which says both "still consistent" and "only the intended
// entries changed". The operation's ASMJIT_ASSERT preconditions and its debug verify() run inside and are obligations too.
#include <asmjit/core.h>
#include "assign_model.h"


static inline void layout_checks(const Env& e) {
  V_ASSERT(e.as._layout.phys_total == TOTAL && e.as._layout.work_count == W, "assignment: layout totals");
  for (unsigned g = 0; g < 4; g++) {
    V_ASSERT(e.as._layout.phys_index.get(RegGroup(g)) == BASE[g], "assignment: group g starts at the sum of the counts below it");
    V_ASSERT(e.as._phys_to_work_ids[RegGroup(g)] == e.pm.work_ids + BASE[g], "assignment: per-group views point into the one map");
  }
  V_ASSERT(RAAssignment::PhysToWorkMap::size_of(TOTAL) == sizeof(PMap) && RAAssignment::WorkToPhysMap::size_of(W) == sizeof(WMap), "assignment: map sizes");
}

// the real maps are exactly the maps of the model
static inline void equals_model(const Env& e, const Model& m) {
  PMap xp; WMap xw; maps_of(m, xp, xw);
  for (unsigned g = 0; g < 4; g++) {
    V_ASSERT(e.pm.assigned._masks[g] == xp.assigned._masks[g], "assignment: assigned mask is the set of occupied physical registers");
    V_ASSERT(e.pm.dirty._masks[g] == xp.dirty._masks[g], "assignment: dirty mask is the set of dirty occupied registers");
    V_ASSERT((e.pm.dirty._masks[g] & ~e.pm.assigned._masks[g]) == 0, "assignment: dirty is a subset of assigned");
    verif_observe(e.pm.assigned._masks[g]); verif_observe(e.pm.dirty._masks[g]);
  }
  for (unsigned i = 0; i < TOTAL; i++) { V_ASSERT(e.pm.work_ids[i] == xp.work_ids[i], "assignment: phys to work map holds exactly the model"); verif_observe(uint32_t(e.pm.work_ids[i])); }
  for (unsigned w = 0; w < 8; w++) { V_ASSERT(e.wm.phys_ids[w] == xw.phys_ids[w], "assignment: work to phys map holds exactly the model"); verif_observe(e.wm.phys_ids[w]); }
  // the lemma, stated directly on the real maps through the real accessors
  for (unsigned w = 0; w < W; w++) {
    uint32_t p = e.as.work_to_phys_id(RegGroup(m.grp[w]), RAWorkId(w));
    if (p != NONE) {
      V_ASSERT(p < PC[m.grp[w]], "assignment: an assigned work register is in an existing physical register");
      V_ASSERT(e.as.phys_to_work_id(RegGroup(m.grp[w]), p) == RAWorkId(w), "assignment: the maps are mutually inverse");
      V_ASSERT(e.as.is_phys_assigned(RegGroup(m.grp[w]), p), "assignment: an occupied register is marked assigned");
    }
  }
}

static inline bool phys_free(const Model& m, unsigned g, unsigned p) {
  bool f = true; for (unsigned w = 0; w < W; w++) if (m.grp[w] == g && m.loc[w] == p) f = false; return f;
}

enum Op { kAssign, kUnassign, kReassign, kSwap, kClean, kDirty };

template<unsigned GRP, Op OP>
static void step(Model& m, unsigned w) {
  ENV(e); env_init(e, m);
  layout_checks(e);
  const RegGroup g = RegGroup(GRP);
  // the physical register argument: the one the work register is in, except for assign (any free one)
  unsigned p = OP == kAssign ? (nondet_u8() & PMASK) : m.loc[w];
  if (OP == kAssign) V_ASSUME(p < PC[GRP]);
  if (OP != kAssign) V_ASSUME(p != NONE);
  verif_observe(w); verif_observe(p);
  if (OP == kAssign) {
    bool d = nondet_bool();
    V_ASSUME(m.loc[w] == NONE && phys_free(m, GRP, p));
    e.as.assign(g, RAWorkId(w), p, d);
    m.loc[w] = uint8_t(p); m.dirty[w] = d;
    V_WITNESS("assign");
  }
  else if (OP == kUnassign) {
    e.as.unassign(g, RAWorkId(w), p);
    m.loc[w] = NONE; m.dirty[w] = false;
    V_WITNESS("unassign");
  }
  else if (OP == kReassign) {
    unsigned dst = nondet_u8() & PMASK;
    V_ASSUME(dst < PC[GRP]);
    V_ASSUME(dst != p && phys_free(m, GRP, dst));
    e.as.reassign(g, RAWorkId(w), dst, p);
    m.loc[w] = uint8_t(dst);
    if (m.dirty[w]) V_WITNESS("reassign-dirty"); else V_WITNESS("reassign-clean");
  }
  else if (OP == kSwap) {
    unsigned w2 = nondet_u8() & 7;
    V_ASSUME(w2 < W && m.grp[w2] == GRP && w2 != w);
    unsigned p2 = m.loc[w2];
    V_ASSUME(p2 != NONE);
    e.as.swap(g, RAWorkId(w), p, RAWorkId(w2), p2);
    m.loc[w] = uint8_t(p2); m.loc[w2] = uint8_t(p);     // the dirty flag travels with the value, i.e. stays with its work register
    if (m.dirty[w] != m.dirty[w2]) V_WITNESS("swap-mixed"); else V_WITNESS("swap-same");
  }
  else if (OP == kClean) {
    e.as.make_clean(g, RAWorkId(w), p);
    m.dirty[w] = false;
    V_WITNESS("clean");
  }
  else {
    e.as.make_dirty(g, RAWorkId(w), p);
    m.dirty[w] = true;
    V_WITNESS("dirty");
  }
  equals_model(e, m);
}

#ifdef C05_X64
#define HN(name) h_assign_##name##_x64
#else
#define HN(name) h_assign_##name
#endif
#define STEP_HARNESS(name, OP) HARNESS HN(name)() { \
  Model m; model_nondet(m); unsigned w = nondet_u8() & 7; V_ASSUME(w < W); \
  if (m.grp[w] == 0) step<0, OP>(m, w); else if (m.grp[w] == 1) step<1, OP>(m, w); else if (G > 2 && m.grp[w] == 2) step<2, OP>(m, w); else if (G > 2) step<3, OP>(m, w); }
STEP_HARNESS(assign, kAssign)
STEP_HARNESS(unassign, kUnassign)
STEP_HARNESS(reassign, kReassign)
STEP_HARNESS(swap, kSwap)
STEP_HARNESS(clean, kClean)
STEP_HARNESS(dirty, kDirty)

// --------------------------------------------------------------------------------------------------------------------------
// copy_from (both forms), equals, swap(RAAssignment&), assign_work_ids_from_phys_ids, the maps' reset/unassign helpers
HARNESS HN(copy)() {
  Model m1, m2; model_nondet(m1); model_nondet(m2);
  for (unsigned w = 0; w < W; w++) {                            // one function: both assignments are over the same work registers
    m2.grp[w] = m1.grp[w];
    if (m2.loc[w] != NONE && m2.loc[w] >= PC[m2.grp[w]]) { m2.loc[w] = NONE; m2.dirty[w] = false; }
  }
  for (unsigned a = 0; a < W; a++) for (unsigned b = a + 1; b < W; b++) V_ASSUME(!(m2.grp[a] == m2.grp[b] && m2.loc[a] != NONE && m2.loc[a] == m2.loc[b]));
  ENV(e1); env_init(e1, m1);
  // the second assignment shares layout and work registers with the first (as cur/tmp assignments of the local allocator do)
  PMap pm2; WMap wm2; RAAssignment as2;
  RARegCount pc; pc.reset(); for (unsigned g = 0; g < G; g++) pc.set(RegGroup(g), PC[g]);
  as2.init_layout(pc, g_work_regs);
  maps_of(m2, pm2, wm2);
  as2.init_maps(reinterpret_cast<RAAssignment::PhysToWorkMap*>(&pm2), reinterpret_cast<RAAssignment::WorkToPhysMap*>(&wm2));

  bool same = true;
  for (unsigned w = 0; w < W; w++) if (m1.loc[w] != m2.loc[w] || m1.dirty[w] != m2.dirty[w]) same = false;
  V_ASSERT(e1.as.equals(as2) == same, "assignment: equals is true iff both hold the same assignment");
  if (same) V_WITNESS("equal-states"); else V_WITNESS("different-states");

  switch (nondet_u8() % 4) {
    case 0: e1.as.copy_from(as2); V_WITNESS("copy-assignment"); break;
    case 1: e1.as.copy_from(as2.phys_to_work_map(), as2.work_to_phys_map()); V_WITNESS("copy-both-maps"); break;
    case 2: e1.as.copy_from(as2.phys_to_work_map()); V_WITNESS("copy-phys-map-rebuild-work-map"); break;   // what replace_assignment / block entry uses
    default: {
      e1.as.swap(as2);
      V_ASSERT(as2.phys_to_work_map() == reinterpret_cast<RAAssignment::PhysToWorkMap*>(&e1.pm) && as2.work_to_phys_map() == reinterpret_cast<RAAssignment::WorkToPhysMap*>(&e1.wm), "assignment: swap hands the maps over");
      V_ASSERT(e1.as.phys_to_work_map() == reinterpret_cast<RAAssignment::PhysToWorkMap*>(&pm2) && e1.as._phys_to_work_ids[RegGroup(1)] == pm2.work_ids + BASE[1], "assignment: swap takes the other maps and views");
      V_ASSERT(as2._phys_to_work_ids[RegGroup(0)] == e1.pm.work_ids && as2._phys_to_work_ids[RegGroup(1)] == e1.pm.work_ids + BASE[1], "assignment: swap hands the views over");
      V_WITNESS("swap-assignments");
      return;
    }
  }
  equals_model(e1, m2);
  V_ASSERT(e1.as.equals(as2), "assignment: a copy equals its source");
  // the source is untouched
  PMap xp; WMap xw; maps_of(m2, xp, xw);
  for (unsigned i = 0; i < TOTAL; i++) V_ASSERT(pm2.work_ids[i] == xp.work_ids[i], "assignment: copy leaves the source alone");
}

HARNESS HN(maps)() {
  Model m; model_nondet(m);
  ENV(e); env_init(e, m);
  RAAssignment::PhysToWorkMap* pmap = e.as.phys_to_work_map();
  RAAssignment::WorkToPhysMap* wmap = e.as.work_to_phys_map();
  if (nondet_bool()) {
    // PhysToWorkMap::unassign(group, phys_id, index): the entry-assignment clean-up in rapass.cpp; precondition: index = idx(group) + phys_id
    unsigned g = nondet_u8() & GMASK, p = nondet_u8() & PMASK;
    V_ASSUME(p < PC[g]);
    pmap->unassign(RegGroup(g), p, e.as._layout.phys_index.get(RegGroup(g)) + p);
    for (unsigned w = 0; w < W; w++) if (m.grp[w] == g && m.loc[w] == p) { m.loc[w] = NONE; m.dirty[w] = false; }
    PMap xp; WMap xw; maps_of(m, xp, xw);
    for (unsigned k = 0; k < 4; k++) V_ASSERT(e.pm.assigned._masks[k] == xp.assigned._masks[k] && e.pm.dirty._masks[k] == xp.dirty._masks[k], "maps: unassign clears exactly the register in both masks");
    for (unsigned i = 0; i < TOTAL; i++) V_ASSERT(e.pm.work_ids[i] == xp.work_ids[i], "maps: unassign clears exactly one entry");
    // (the work to phys map is rebuilt from this map afterwards by assign_work_ids_from_phys_ids)
    e.as.assign_work_ids_from_phys_ids();
    equals_model(e, m);
    V_WITNESS("map-unassign");
  }
  else {
    pmap->reset(TOTAL); wmap->reset(W);
    for (unsigned w = 0; w < W; w++) { m.loc[w] = NONE; m.dirty[w] = false; }
    equals_model(e, m);
    V_WITNESS("map-reset");
  }
}
