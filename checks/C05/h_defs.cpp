// C05 / K4a — small pure helpers of radefs_p.h the allocator's bookkeeping is written in: RARegCount / RARegIndex (packed 8-bit
// counters and the group -> first-index map used by the PhysToWorkMap layout), RARegMask, RARegsStats, RALiveCount, and the
// RATiedReg flag predicates (read/write vs use/out views of one tied register). All inputs symbolic over their full width.
#include <asmjit/core.h>
#include <asmjit/core/radefs_p.h>
#include "verif.h"
using namespace asmjit;

static inline RegGroup any_group() { return RegGroup(nondet_u8() & 3); }

HARNESS h_defs_regcount() {
  RARegCount c; c._counters = nondet_u32();
  const uint32_t old = c._counters;
  uint32_t b[4] = { old & 0xFF, (old >> 8) & 0xFF, (old >> 16) & 0xFF, old >> 24 };
  for (unsigned g = 0; g < 4; g++) V_ASSERT(c.get(RegGroup(g)) == b[g], "regcount: get returns the byte of the group");
  RegGroup g = any_group(); uint32_t n = nondet_u32();
  switch (nondet_u8() % 3) {
    case 0: {
      V_ASSUME(n <= 0xFF);                                   // ASMJIT_ASSERT(n <= 0xFF)
      c.set(g, n);
      for (unsigned k = 0; k < 4; k++) V_ASSERT(c.get(RegGroup(k)) == (k == unsigned(g) ? n : b[k]), "regcount: set changes exactly one counter");
      V_WITNESS("regcount-set");
      break;
    }
    case 1: {
      V_ASSUME(n <= 0xFF && b[unsigned(g)] + n <= 0xFF);      // ASMJIT_ASSERT(get(group) + n <= 0xFF)
      c.add(g, n);
      for (unsigned k = 0; k < 4; k++) V_ASSERT(c.get(RegGroup(k)) == (k == unsigned(g) ? b[k] + n : b[k]), "regcount: add changes exactly one counter");
      V_WITNESS("regcount-add");
      break;
    }
    default: {
      // RARegIndex::build_indexes: the first index of group g is the sum of the counts of the groups below it
      V_ASSUME(b[0] + b[1] + b[2] <= 0xFF);                   // its two ASMJIT_ASSERTs
      RARegIndex ix; ix._counters = nondet_u32();
      ix.build_indexes(c);
      V_ASSERT(ix.get(RegGroup(0)) == 0 && ix.get(RegGroup(1)) == b[0] && ix.get(RegGroup(2)) == b[0] + b[1] && ix.get(RegGroup(3)) == b[0] + b[1] + b[2], "regindex: group g starts at the sum of the counts below it");
      // consequence for the maps: the per-group index ranges [index(g), index(g) + count(g)) are pairwise disjoint and consecutive
      for (unsigned k = 0; k + 1 < 4; k++) V_ASSERT(ix.get(RegGroup(k)) + b[k] == ix.get(RegGroup(k + 1)), "regindex: group ranges are consecutive, hence disjoint");
      V_ASSERT(c._counters == old, "regindex: the counts are not modified");
      V_WITNESS("regindex-build");
      break;
    }
  }
  verif_observe(c._counters);
  c.reset();
  V_ASSERT(c._counters == 0 && c == RARegCount{0} && !(c != RARegCount{0}), "regcount: reset and comparison");
}

HARNESS h_defs_regmask() {
  RARegMask a, b;
  uint32_t av[4], bv[4];
  for (unsigned i = 0; i < 4; i++) { av[i] = nondet_u32(); bv[i] = nondet_u32(); a._masks[i] = av[i]; b._masks[i] = bv[i]; }
  RegGroup g = any_group(); uint32_t m = nondet_u32();
  bool all_zero = (av[0] | av[1] | av[2] | av[3]) == 0;
  V_ASSERT(a.is_empty() == all_zero, "regmask: is_empty iff every group mask is zero");
  V_ASSERT(a.has(g, m) == ((av[unsigned(g)] & m) != 0) && a.has(g) == (av[unsigned(g)] != 0), "regmask: has tests the group mask");
  bool same = av[0] == bv[0] && av[1] == bv[1] && av[2] == bv[2] && av[3] == bv[3];
  V_ASSERT((a == b) == same && (a != b) == !same, "regmask: comparison is element-wise");
  if (all_zero) V_WITNESS("regmask-empty");
  switch (nondet_u8() % 7) {
    case 0: a.op<Support::Or>(b);     for (unsigned i = 0; i < 4; i++) V_ASSERT(a[RegGroup(i)] == (av[i] | bv[i]), "regmask: or of all groups"); V_WITNESS("regmask-or"); break;
    case 1: a.op<Support::And>(b);    for (unsigned i = 0; i < 4; i++) V_ASSERT(a[RegGroup(i)] == (av[i] & bv[i]), "regmask: and of all groups"); V_WITNESS("regmask-and"); break;
    case 2: a.op<Support::AndNot>(b); for (unsigned i = 0; i < 4; i++) V_ASSERT(a[RegGroup(i)] == (av[i] & ~bv[i]), "regmask: and-not of all groups"); V_WITNESS("regmask-andnot"); break;
    case 3: a.op<Support::Or>(g, m);  for (unsigned i = 0; i < 4; i++) V_ASSERT(a[RegGroup(i)] == (i == unsigned(g) ? (av[i] | m) : av[i]), "regmask: or of one group leaves the others"); V_WITNESS("regmask-or-group"); break;
    case 4: a.clear(g, m);            for (unsigned i = 0; i < 4; i++) V_ASSERT(a[RegGroup(i)] == (i == unsigned(g) ? (av[i] & ~m) : av[i]), "regmask: clear of one group leaves the others"); V_WITNESS("regmask-clear-group"); break;
    case 5: a.clear(b._masks);        for (unsigned i = 0; i < 4; i++) V_ASSERT(a[RegGroup(i)] == (av[i] & ~bv[i]), "regmask: clear of all groups"); V_WITNESS("regmask-clear"); break;
    default: a.init(b);               V_ASSERT(a == b, "regmask: init copies"); a.reset(); V_ASSERT(a.is_empty(), "regmask: reset empties"); V_WITNESS("regmask-init-reset"); break;
  }
  for (unsigned i = 0; i < 4; i++) { V_ASSERT(b._masks[i] == bv[i], "regmask: the right operand is not modified"); verif_observe(a._masks[i]); }

  // RARegsStats: three independent per-group flag sets; RALiveCount: per-group max/add
  RARegsStats st; st._packed = nondet_u32() & 0x0F0F0F;
  uint32_t p0 = st._packed;
  RegGroup h = any_group();
  switch (nondet_u8() % 3) {
    case 0: st.make_used(h);      V_ASSERT(st._packed == (p0 | (1u << unsigned(h))) && st.has_used(h) && st.has_used(), "stats: make_used sets one used bit"); break;
    case 1: st.make_fixed(h);     V_ASSERT(st._packed == (p0 | (0x100u << unsigned(h))) && st.has_fixed(h) && st.has_fixed(), "stats: make_fixed sets one fixed bit"); break;
    default: st.make_clobbered(h); V_ASSERT(st._packed == (p0 | (0x10000u << unsigned(h))) && st.has_clobbered(h) && st.has_clobbered(), "stats: make_clobbered sets one clobbered bit"); break;
  }
  for (unsigned i = 0; i < 4; i++) {
    V_ASSERT(st.has_used(RegGroup(i)) == (((st._packed >> i) & 1) != 0) && st.has_fixed(RegGroup(i)) == (((st._packed >> (8 + i)) & 1) != 0) && st.has_clobbered(RegGroup(i)) == (((st._packed >> (16 + i)) & 1) != 0), "stats: the three flag sets do not interfere");
  }
  RALiveCount lc, ld;
  for (unsigned i = 0; i < 4; i++) { lc.n[i] = av[i]; ld.n[i] = bv[i]; }
  lc.op<Support::Max>(ld);
  for (unsigned i = 0; i < 4; i++) V_ASSERT(lc[RegGroup(i)] == (av[i] > bv[i] ? av[i] : bv[i]), "livecount: max per group");
}

// RATiedReg: the flag word carries two views of one register - access (Read / Write) and allocation slots (Use / Out).
HARNESS h_defs_tied() {
  RATiedReg t;
  uint32_t f = nondet_u32();
  uint32_t use_mask = nondet_u32(), out_mask = nondet_u32(), use_rw = nondet_u32(), out_rw = nondet_u32();
  uint32_t use_id = nondet_u8(), out_id = nondet_u8(), rm = nondet_u8();
  t.init(nullptr, RATiedFlags(f), use_mask, use_id, use_rw, out_mask, out_id, out_rw, rm);
  V_ASSERT(uint32_t(t.flags()) == f && t.use_reg_mask() == use_mask && t.out_reg_mask() == out_mask && t.use_rewrite_mask() == use_rw && t.out_rewrite_mask() == out_rw &&
           t.use_id() == use_id && t.out_id() == out_id && t.rm_size() == rm && t.ref_count() == 1 && !t.has_consecutive_parent(), "tied: init stores every field");
  V_ASSERT(t.has_use_id() == (use_id != 0xFF) && t.has_out_id() == (out_id != 0xFF), "tied: fixed ids are present unless 0xFF");
  bool R = f & 1, Wr = f & 2, U = f & 4, O = f & 8;
  V_ASSERT(t.is_read() == R && t.is_write() == Wr && t.is_use() == U && t.is_out() == O, "tied: read, write, use, out test their own bits");
  V_ASSERT(t.is_read_only() == (R && !Wr) && t.is_write_only() == (!R && Wr) && t.is_read_write() == (R && Wr), "tied: read-only, write-only, read-write are the three access combinations");
  V_ASSERT(int(t.is_read_only()) + int(t.is_write_only()) + int(t.is_read_write()) == ((R || Wr) ? 1 : 0), "tied: exactly one access combination holds for an accessed register");
  V_ASSERT(t.is_kill() == ((f & 0x80000u) != 0) && t.is_out_or_kill() == (O || (f & 0x80000u) != 0), "tied: out-or-kill is the disjunction");
  V_ASSERT(t.is_use_done() == ((f & 0x100u) != 0) && t.is_out_done() == ((f & 0x200u) != 0) && t.has_use_rm() == ((f & 0x10u) != 0) && t.has_out_rm() == ((f & 0x20u) != 0), "tied: done and rm predicates test their own bits");
  V_ASSERT(t.has_any_consecutive_flag() == ((f & 0x1C00u) != 0) && t.consecutive_data() == ((f >> 13) & 3), "tied: consecutive flags and payload");
  V_ASSERT(t.is_unique() == ((f & 0x8000u) != 0) && t.is_duplicate() == ((f & 0x10000u) != 0) && t.is_first() == ((f & 0x20000u) != 0) && t.is_last() == ((f & 0x40000u) != 0), "tied: unique, duplicate, first, last test their own bits");
  uint32_t off = nondet_u8() & 3;
  V_ASSERT(RATiedReg::consecutive_data_from_flags(RATiedReg::consecutive_data_to_flags(off)) == off && (uint32_t(RATiedReg::consecutive_data_to_flags(off)) & ~0x6000u) == 0, "tied: the consecutive payload round trips inside its field");
  switch (nondet_u8() % 4) {
    case 0:
      t.make_read_only();
      V_ASSERT(t.is_use() && !t.is_out() && !t.is_write() && t.is_read() == R, "tied: make_read_only leaves a use slot that is not written");
      V_ASSERT(t.use_rewrite_mask() == (use_rw | out_rw) && t.out_rewrite_mask() == 0, "tied: make_read_only moves the out rewrite positions to use");
      V_ASSERT((uint32_t(t.flags()) & ~0xEu) == (f & ~0xEu), "tied: make_read_only touches only write, use, out");
      V_WITNESS("tied-read-only");
      break;
    case 1:
      t.make_write_only();
      V_ASSERT(t.is_out() && !t.is_use() && !t.is_read() && t.is_write() == Wr, "tied: make_write_only leaves an out slot that is not read");
      V_ASSERT(t.out_rewrite_mask() == (use_rw | out_rw) && t.use_rewrite_mask() == 0, "tied: make_write_only moves the use rewrite positions to out");
      V_ASSERT((uint32_t(t.flags()) & ~0xDu) == (f & ~0xDu), "tied: make_write_only touches only read, use, out");
      V_WITNESS("tied-write-only");
      break;
    case 2:
      t.mark_use_done(); t.mark_out_done();
      V_ASSERT(uint32_t(t.flags()) == (f | 0x300u), "tied: the done marks add their two bits");
      V_WITNESS("tied-done");
      break;
    default: {
      uint32_t u2 = nondet_u8(), o2 = nondet_u8(), n = nondet_u8();
      t.set_use_id(u2); t.set_out_id(o2); t.add_ref_count(n);
      V_ASSERT(t.use_id() == u2 && t.out_id() == o2 && t.ref_count() == ((1 + n) & 0xFF) && t.rm_size() == rm && uint32_t(t.flags()) == f, "tied: the packed ids do not interfere");
      V_WITNESS("tied-ids");
      break;
    }
  }
  verif_observe(uint32_t(t.flags())); verif_observe(t._packed);
}
