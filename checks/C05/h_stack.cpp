// C05 / K3 — RAStackAllocator (asmjit/core/rastack.cpp): the lemma "spill homes never alias".
//   h_stack_frame_k<K>   calculate_stack_frame() on K = 1..4 slots with symbolic size (1..2^20), alignment (1,2,..,128), flags
//                        (register home / stack argument), use count (32 bits), stale weight and offset:
//                        every laid-out slot is aligned to its own alignment, slots are pairwise disjoint, all lie inside
//                        [0, stack_size), stack_size is a multiple of the allocator's alignment and wastes less than one
//                        alignment unit above the highest slot; sizes/alignments/flags untouched; stack-argument slots are not moved;
//                        the slot vector is a permutation of what it was; weights follow the documented formula.
//   h_stack_adjust       adjust_slot_offsets(delta): every laid-out slot moves by exactly delta (so disjointness and - for delta a
//                        multiple of the alignment - alignment carry over), stack-argument slots stay.
//   h_stack_new_slot     new_slot() from an allocator with 0..3 slots: the slot gets the requested size/alignment/flags, zero
//                        use count/weight/offset, is appended, the allocator's alignment becomes the maximum; arena failures
//                        return nullptr and leave the slots as they were.
//   h_stack_chain_k<K>   new_slot x K through the arena stand-in, then calculate_stack_frame: the same layout claims for the
//                        states the real constructor sequence produces.
#include <asmjit/core.h>
#include <asmjit/core/rastack_p.h>
#include "verif.h"
using namespace asmjit;

template<class T> union Raw { T v; Raw() noexcept {} ~Raw() noexcept {} };

// The Arena is environment (C18 checks it). Typed stand-in: slots come one by one from four RAStackSlot objects, vector storage
// from three arrays of 16 pointers (new_slot grows the slot vector at 0 -> 2 -> 8 entries); every request may fail when asked to.
// While `forbid` is set a request is an error: calculate_stack_frame() keeps a free list of alignment gaps in arena vectors, but
// no gap is ever recorded (see the report: the recording loop gives up in its first round for every input), so it never asks for
// memory. The stub asserts exactly that and ends the path, which also tells the solver that the gap lists stay empty.
static RAStackSlot g_s0, g_s1, g_s2, g_s3;
static RAStackSlot* g_vec0[16]; static RAStackSlot* g_vec1[16]; static RAStackSlot* g_vec2[16];
namespace arena_stub { static bool may_fail = false, forbid = false; static int n_allocs = 0, n_failed = 0, n_slots = 0, n_vecs = 0; }
static inline RAStackSlot* slot_obj(unsigned i) { return i == 0 ? &g_s0 : i == 1 ? &g_s1 : i == 2 ? &g_s2 : &g_s3; }
ASMJIT_BEGIN_NAMESPACE
void* Arena::_alloc_oneshot(size_t size) noexcept {
  arena_stub::n_allocs++;
  if (arena_stub::forbid) { V_ASSERT(false, "stack env: calculate_stack_frame asks for no memory"); V_ASSUME(false); }
  V_ASSERT(size <= sizeof(RAStackSlot) + 4 && arena_stub::n_slots < 4, "stack env: at most four slot objects are requested");
  if (arena_stub::may_fail && nondet_bool()) { arena_stub::n_failed++; return nullptr; }
  return slot_obj(unsigned(arena_stub::n_slots++));
}
void* Arena::_alloc_reusable(size_t size, Out<size_t> allocated_size) noexcept {
  arena_stub::n_allocs++;
  if (arena_stub::forbid) { V_ASSERT(false, "stack env: calculate_stack_frame records no gap"); V_ASSUME(false); }
  V_ASSERT(size <= sizeof(g_vec0) && arena_stub::n_vecs < 3, "stack env: at most three vector blocks of at most 128 bytes are requested");
  if (arena_stub::may_fail && nondet_bool()) { arena_stub::n_failed++; allocated_size = 0; return nullptr; }
  size_t slot = 0, asz = 0;
  if (!_get_reusable_slot_index(size, Out(slot), Out(asz))) asz = size;
  allocated_size = asz;
  int k = arena_stub::n_vecs++;
  return k == 0 ? (void*)g_vec0 : k == 1 ? (void*)g_vec1 : (void*)g_vec2;
}
void Arena::_release_dynamic(void*, size_t) noexcept {}
ASMJIT_END_NAMESPACE
static inline void env_reset() {
  arena_stub::may_fail = arena_stub::forbid = false; arena_stub::n_allocs = arena_stub::n_failed = arena_stub::n_slots = arena_stub::n_vecs = 0;
}

static const uint32_t kMaxSize = 1u << 20;
struct SlotIn { uint32_t size, align, flags, use_count; int32_t offset; };

static inline void slot_nondet(SlotIn& s) {
  uint32_t sz = nondet_u32() & (kMaxSize - 1);
  s.size = sz + 1;                                   // 1 .. 2^20
  s.align = 1u << (nondet_u8() & 7);                 // 1 .. 128
  s.flags = nondet_u8() & 3;                         // kFlagRegHome | kFlagStackArg
  s.use_count = nondet_u32();
  s.offset = int32_t(nondet_u32());
}

// hand-built states: the separate slot objects above, one pointer array
static RAStackSlot* g_ptrs[4];
static Raw<Arena> g_arena;     // zero: no block, nothing pooled - every request reaches the stand-in above
static Raw<RAStackAllocator> g_sa;

template<unsigned K>
static inline RAStackAllocator& make_allocator(const SlotIn (&in)[4]) {
  RAStackAllocator& sa = g_sa.v;
  env_reset();
  for (unsigned i = 0; i < Arena::kReusableSlotCount; i++) g_arena.v._reusable_slots[i] = nullptr;
  sa.reset(&g_arena.v);
  uint32_t amax = 1;
  for (unsigned i = 0; i < K; i++) {
    RAStackSlot* s = slot_obj(i);
    s->_base_reg_id = 4; s->_alignment = uint8_t(in[i].align); s->_flags = uint16_t(in[i].flags); s->_size = in[i].size;
    s->_use_count = in[i].use_count; s->_weight = nondet_u32(); s->_offset = in[i].offset;
    g_ptrs[i] = s;
    if (in[i].align > amax) amax = in[i].align;
  }
  sa._slots._data = g_ptrs; sa._slots._size = K; sa._slots._capacity = 4;
  sa._alignment = amax;                              // what new_slot maintains (h_stack_new_slot)
  return sa;
}

static inline uint32_t weight_of(const SlotIn& s) {
  uint32_t power = uint32_t(__builtin_ctz(s.align));
  if (power > 6) power = 6;
  if (!(s.flags & RAStackSlot::kFlagRegHome)) return power;
  uint64_t wt = 16 + uint64_t(s.use_count) * (7 - power);
  return wt > 0xFFFFFFFFu ? 0xFFFFFFFFu : uint32_t(wt);
}

// the layout claims for slots 0..K-1 (objects slot_obj(i), inputs in[i])
template<unsigned K>
static inline void check_layout(RAStackAllocator& sa, const SlotIn (&in)[4]) {
  uint32_t stack_size = sa.stack_size(), salign = sa.alignment();
  uint64_t top = 0; bool any = false;
  for (unsigned i = 0; i < K; i++) {
    const RAStackSlot* s = slot_obj(i);
    V_ASSERT(s->size() == in[i].size && s->alignment() == in[i].align && s->flags() == in[i].flags && s->use_count() == in[i].use_count, "stack: size, alignment, flags and use count of a slot are not changed");
    V_ASSERT(s->weight() == weight_of(in[i]), "stack: weight follows the documented formula");
    verif_observe(uint32_t(s->offset()));
    if (in[i].flags & RAStackSlot::kFlagStackArg) {
      V_ASSERT(s->offset() == in[i].offset, "stack: a stack argument slot is not moved");
      continue;
    }
    any = true;
    V_ASSERT(s->offset() >= 0, "stack: offsets are not negative");
    uint64_t lo = uint64_t(uint32_t(s->offset())), hi = lo + in[i].size;
    V_ASSERT((lo & (in[i].align - 1)) == 0, "stack: every slot is aligned to its own alignment");
    V_ASSERT(hi <= stack_size, "stack: every slot lies inside the reported stack size");
    V_ASSERT(salign >= in[i].align, "stack: the reported alignment covers every slot");
    if (hi > top) top = hi;
    for (unsigned j = i + 1; j < K; j++) {
      if (in[j].flags & RAStackSlot::kFlagStackArg) continue;
      uint64_t lo2 = uint64_t(uint32_t(slot_obj(j)->offset())), hi2 = lo2 + in[j].size;
      V_ASSERT(hi <= lo2 || hi2 <= lo, "stack: two slots never overlap");
    }
  }
  V_ASSERT((salign & (salign - 1)) == 0 && salign != 0, "stack: the reported alignment is a power of two");
  V_ASSERT((stack_size & (salign - 1)) == 0, "stack: stack size is a multiple of the reported alignment");
  V_ASSERT(uint64_t(stack_size) < top + salign, "stack: stack size wastes less than one alignment unit above the highest slot");
  if (!any) V_ASSERT(stack_size == 0, "stack: no slot to lay out means no stack");
  verif_observe(stack_size);
}

template<unsigned K>
static void frame_case() {
  SlotIn in[4];
  for (unsigned i = 0; i < K; i++) slot_nondet(in[i]);
  RAStackAllocator& sa = make_allocator<K>(in);
  arena_stub::forbid = true;
  Error err = sa.calculate_stack_frame();
  V_ASSERT(err == Error::kOk, "stack: calculate_stack_frame succeeds");
  V_ASSERT(arena_stub::n_allocs == 0, "stack: calculate_stack_frame needs no memory (no gap is ever recorded)");
  V_ASSERT(sa.slot_count() == K && sa._slots._data == g_ptrs, "stack: the slot vector keeps its size and storage");
  // the vector is a permutation of the slots
  for (unsigned i = 0; i < K; i++) {
    unsigned n = 0; for (unsigned k = 0; k < K; k++) if (g_ptrs[k] == slot_obj(i)) n++;
    V_ASSERT(n == 1, "stack: sorting keeps every slot exactly once");
  }
  check_layout<K>(sa, in);
  V_WITNESS("frame");
  if (K >= 2 && !(in[0].flags & 2) && !(in[1].flags & 2) && slot_obj(0)->offset() > slot_obj(1)->offset()) V_WITNESS("frame-reordered");
  if (K >= 2 && !(in[0].flags & 2) && !(in[1].flags & 2) && sa.stack_size() > in[0].size + in[1].size + (K > 2 ? in[2].size : 0) + (K > 3 ? in[3].size : 0)) V_WITNESS("frame-padded");
}
HARNESS h_stack_frame_k1() { frame_case<1>(); }
HARNESS h_stack_frame_k2() { frame_case<2>(); }
HARNESS h_stack_frame_k3() { frame_case<3>(); }
HARNESS h_stack_frame_k4() { frame_case<4>(); }

// --------------------------------------------------------------------------------------------------------------------------
HARNESS h_stack_adjust() {
  SlotIn in[4];
  for (unsigned i = 0; i < 4; i++) { slot_nondet(in[i]); in[i].offset &= 0x3FFFFFFF; }     // laid-out offsets: 0 .. 2^30
  RAStackAllocator& sa = make_allocator<4>(in);
  unsigned k = nondet_u8() & 7; V_ASSUME(k <= 4);
  sa._slots._size = k;
  int32_t delta = int32_t(nondet_u32());
  V_ASSUME(delta >= -(1 << 30) && delta <= (1 << 30));    // frame.local_stack_offset(): far below 2^30
  Error err = sa.adjust_slot_offsets(delta);
  V_ASSERT(err == Error::kOk, "stack: adjust_slot_offsets succeeds");
  for (unsigned i = 0; i < 4; i++) {
    const RAStackSlot* s = slot_obj(i);
    bool moved = i < k && !(in[i].flags & RAStackSlot::kFlagStackArg);
    V_ASSERT(s->offset() == in[i].offset + (moved ? delta : 0), "stack: adjust moves every laid-out slot by the same amount and nothing else");
    V_ASSERT(s->size() == in[i].size && s->alignment() == in[i].align && s->flags() == in[i].flags, "stack: adjust changes offsets only");
    verif_observe(uint32_t(s->offset()));
  }
  V_WITNESS("adjust");
}

// --------------------------------------------------------------------------------------------------------------------------
template<unsigned N, bool SPARE>
static void new_slot_case() {
  SlotIn in[4];
  for (unsigned i = 0; i < N; i++) slot_nondet(in[i]);
  RAStackAllocator& sa = make_allocator<N>(in);
  arena_stub::n_slots = N;                           // slot objects 0..N-1 are taken
  if (!SPARE) sa._slots._capacity = N;
  if (!SPARE && N == 0) sa._slots._data = nullptr;
  uint32_t old_align = sa._alignment;
  uint32_t base = nondet_u8(), size = nondet_u32(), align = nondet_u8() & 0xFF, flags = nondet_u16();
  arena_stub::may_fail = true;
  RAStackSlot* s = sa.new_slot(base, size, align, flags);
  verif_observe(s != nullptr);
  if (!s) {
    V_ASSERT(arena_stub::n_failed == 1, "stack: new_slot fails only when the arena fails");
    V_ASSERT(sa.slot_count() == N && sa._alignment == old_align, "stack: a failed new_slot adds nothing");
    for (unsigned i = 0; i < N; i++) V_ASSERT(sa._slots[i] == slot_obj(i), "stack: a failed new_slot keeps the slots");
    V_WITNESS("new-slot-oom");
    return;
  }
  V_ASSERT(sa.slot_count() == N + 1 && sa._slots[N] == s, "stack: the new slot is appended");
  for (unsigned i = 0; i < N; i++) V_ASSERT(sa._slots[i] == slot_obj(i), "stack: new_slot keeps the earlier slots");
  V_ASSERT(s->base_reg_id() == base && s->size() == size && s->flags() == flags, "stack: the new slot has the requested base, size and flags");
  V_ASSERT(s->alignment() == (align ? align : 1), "stack: the new slot has the requested alignment (at least 1)");
  V_ASSERT(s->use_count() == 0 && s->weight() == 0 && s->offset() == 0, "stack: the new slot starts unused at offset 0");
  V_ASSERT(sa._alignment == (align > old_align ? align : old_align), "stack: the allocator alignment is the maximum so far");
  V_WITNESS("new-slot");
}
HARNESS h_stack_new_slot() {
  switch (nondet_u8() % 5) {
    case 0: new_slot_case<0, false>(); break;
    case 1: new_slot_case<0, true>(); break;
    case 2: new_slot_case<2, false>(); break;
    case 3: new_slot_case<3, true>(); break;
    default: new_slot_case<3, false>(); break;
  }
}

// --------------------------------------------------------------------------------------------------------------------------
// The real construction sequence: reset, K x new_slot (arena = malloc), use counts added, calculate_stack_frame.
template<unsigned K>
static void chain_case() {
  env_reset();
  for (unsigned i = 0; i < Arena::kReusableSlotCount; i++) g_arena.v._reusable_slots[i] = nullptr;
  RAStackAllocator& sa = g_sa.v;
  sa.reset(&g_arena.v);
  SlotIn in[4]; RAStackSlot* made[4];
  for (unsigned i = 0; i < K; i++) {
    slot_nondet(in[i]);
    made[i] = sa.new_slot(4, in[i].size, in[i].align, in[i].flags);
    V_ASSERT(made[i] != nullptr, "stack chain: new_slot succeeds when memory is there");
    made[i]->add_use_count(in[i].use_count);
    if (in[i].flags & RAStackSlot::kFlagStackArg) made[i]->set_offset(in[i].offset);
  }
  arena_stub::forbid = true;
  Error err = sa.calculate_stack_frame();
  V_ASSERT(err == Error::kOk, "stack chain: calculate_stack_frame succeeds");
  uint32_t stack_size = sa.stack_size(), salign = sa.alignment();
  uint64_t top = 0;
  for (unsigned i = 0; i < K; i++) {
    const RAStackSlot* s = made[i];
    V_ASSERT(s->size() == in[i].size && s->alignment() == in[i].align && s->flags() == in[i].flags, "stack chain: slot parameters are kept");
    if (in[i].flags & RAStackSlot::kFlagStackArg) { V_ASSERT(s->offset() == in[i].offset, "stack chain: a stack argument slot is not moved"); continue; }
    uint64_t lo = uint64_t(uint32_t(s->offset())), hi = lo + in[i].size;
    V_ASSERT(s->offset() >= 0 && (lo & (in[i].align - 1)) == 0, "stack chain: every slot is aligned to its own alignment");
    V_ASSERT(hi <= stack_size && salign >= in[i].align, "stack chain: every slot lies inside the reported stack size and alignment");
    if (hi > top) top = hi;
    for (unsigned j = i + 1; j < K; j++) {
      if (in[j].flags & RAStackSlot::kFlagStackArg) continue;
      uint64_t lo2 = uint64_t(uint32_t(made[j]->offset())), hi2 = lo2 + in[j].size;
      V_ASSERT(hi <= lo2 || hi2 <= lo, "stack chain: two slots never overlap");
    }
    verif_observe(uint32_t(s->offset()));
  }
  V_ASSERT((stack_size & (salign - 1)) == 0 && uint64_t(stack_size) < top + salign, "stack chain: stack size is the aligned end of the highest slot");
  V_WITNESS("chain");
}
HARNESS h_stack_chain_k2() { chain_case<2>(); }
HARNESS h_stack_chain_k3() { chain_case<3>(); }
