// C10 — section layout (CodeHolder::flatten / code_size), flattened copy (copy_flattened_data), ordered insertion (new_section).
// Pre-states are built directly: 4 sections in `_sections_by_order` sequence (flatten and the copy only look at that sequence),
// each with a symbolic power-of-two alignment 2^0..2^16 (text: also the built-in 0), a symbolic buffer size with symbolic
// bytes and a full 64-bit symbolic virtual size, so every overflow path of the offset arithmetic is inside the query.
#include "ch_env.h"
using namespace asmjit;
using namespace chenv;

// Destination image: 8 guard bytes, DS destination bytes with symbolic previous content, DS + 8 guard bytes - all in ONE array, the
// guards a fixed non-zero pattern. An overrun of the copy (which writes zeros or section bytes at most DS bytes past any in-bounds
// start) then stays inside this array and changes a guard byte, so a solver counterexample is the same event in the native
// twins; with symbolic guards and a short tail the solver could "see" an out-of-object write that natively lands unobserved
// in a neighbouring static (or overwrites a zero with a zero).
template<uint32_t DS> constexpr uint32_t kImgSize = 8 + DS + DS + 8;
template<uint32_t DS> static void fill_image(uint8_t* img, uint8_t* img_before) {
  for (uint32_t j = 0; j < kImgSize<DS>; j++) { img[j] = (j >= 8 && j < 8 + DS) ? nondet_u8() : uint8_t(0xA5); img_before[j] = img[j]; }
}
struct Pre { uint64_t virt, real, off; uint32_t al, bsize; };
static Pre pre[4];

template<uint32_t BS>
static void symbolic_sections(bool symbolic_offsets) {
  for (uint32_t i = 0; i < 4; i++) {
    Section* s = sec(i);
    uint32_t k = nondet_u8() & 31; if (k > 16) k -= 16;
    uint32_t al = 1u << k;
    if (i == 0 && nondet_bool()) al = 0;  // the built-in .text has alignment 0 unless the user set one
    uint32_t bsize = nondet_u8() % (BS + 1);
    uint64_t virt = nondet_u64();
    s->_alignment = al; s->_virtual_size = virt; s->_buffer._size = bsize;
    if (symbolic_offsets) s->_offset = nondet_u64();
    for (uint32_t j = 0; j < BS; j++) sbuf[i][j] = nondet_u8();
    pre[i].al = al ? al : 1; pre[i].bsize = bsize; pre[i].virt = virt; pre[i].real = virt > bsize ? virt : bsize; pre[i].off = s->_offset;
  }
}

// Runs flatten() and checks its contract; returns true when it succeeded.
// kf_mode: 0 = main harness (region of known finding C10a excluded while it is open), 1 = confined to that region, -1 = no code_size call.
static bool flatten_checked(CodeHolder* c, int kf_mode) {
  // Reference: does the layout fit into 64 bits (exact arithmetic, first overflow is final)?
  bool fits = true; uint64_t run = 0;
  for (uint32_t i = 0; i < 4; i++) {
    if (!fits || !pre[i].real) continue;
    uint64_t a = pre[i].al;
    if (run > UINT64_MAX - (a - 1)) { fits = false; continue; }
    uint64_t aligned = (run + (a - 1)) & ~(a - 1);
    if (aligned > UINT64_MAX - pre[i].real) { fits = false; continue; }
    run = aligned + pre[i].real;
  }

  Error err = c->flatten();
  verif_observe(uint64_t(err));
  V_ASSERT((err == Error::kOk) == fits, "flatten succeeds iff the layout fits into 64 bits");
  if (err != Error::kOk) {
    V_ASSERT(err == Error::kTooLarge, "flatten overflow is reported as kTooLarge");
    for (uint32_t i = 0; i < 4; i++)
      V_ASSERT(sec(i)->_offset == pre[i].off && sec(i)->_virtual_size == pre[i].virt, "failed flatten leaves offsets and virtual sizes unchanged");
    return false;
  }

  // Known finding C10a: a section that is empty when flatten() runs, followed by a section that needs alignment padding, is
  // handed that padding as its virtual size; code_size() then treats it as non-empty and aligns it, over-reporting the size.
  bool kf = false;
  for (uint32_t i = 0; i < 3; i++) if (pre[i].real == 0 && sec(i)->_virtual_size != 0) kf = true;
  if (kf_mode == 0) {
#if KF_C10a
    V_ASSUME(!kf);
#endif
  }
  else V_ASSUME(kf);

  uint64_t end_prev = 0;
  for (uint32_t i = 0; i < 4; i++) {
    Section* s = sec(i); uint64_t off = s->_offset;
    verif_observe(off); verif_observe(s->_virtual_size);
    V_ASSERT(off >= end_prev, "section starts at or after the end of its predecessor in order");
    if (pre[i].real) {
      V_ASSERT((off & (uint64_t(pre[i].al) - 1)) == 0, "offset of a non-empty section respects its alignment");
      V_ASSERT(off - end_prev < pre[i].al, "no more padding than the alignment requires");
    }
    else {
      V_ASSERT(off == end_prev, "empty section placed at the running offset");
      // (the companion of C10a is confined to the inputs where exactly this does not hold)
      if (kf_mode != 1) V_ASSERT(s->real_size() == 0, "a section that is empty stays empty");
    }
    V_ASSERT(off <= UINT64_MAX - pre[i].real, "section end does not wrap");
    V_ASSERT(s->real_size() >= pre[i].real, "flatten never shrinks a section");
    // alignment padding is attributed to the section in front of it: the (possibly extended) extent of a section ends at or before
    // the next section that has content; empty sections in between carry no bytes and may sit inside that padding
    for (uint32_t k = 0; k < 4; k++) {
      if (k <= i || (pre[k].real == 0 && s->real_size() != 0 && pre[i].real != 0)) continue;
      V_ASSERT(off <= UINT64_MAX - s->real_size() && off + s->real_size() <= sec(k)->_offset, "extended size stays in front of the next section with content");
      break;
    }
    if (i == 3) V_ASSERT(s->_virtual_size == pre[i].virt, "last section keeps its virtual size");
    end_prev = off + pre[i].real;
  }
  V_ASSERT(end_prev == run, "layout is the tightest one");
  if (kf_mode >= 0) {
    size_t cs = c->code_size();
    verif_observe(cs);
    V_ASSERT(uint64_t(cs) >= end_prev, "code_size is never smaller than the end of the last section");
    V_ASSERT(uint64_t(cs) == end_prev, "code_size is the end of the last section");
  }
  return true;
}

// sec(i) is the section at position i of `_sections_by_order`; its id (= position in `_sections`, creation order) is a different
// permutation in two of three cases, so a layout pass that walks the wrong table is visible (text keeps id 0 and stays first).
static void permute_ids() {
  static const uint8_t ids[3][4] = { { 0, 1, 2, 3 }, { 0, 2, 3, 1 }, { 0, 3, 1, 2 } };
  uint32_t sel = nondet_u8() % 3;
  for (uint32_t i = 0; i < 4; i++) { uint32_t id = ids[sel][i]; sec(i)->_section_id = id; by_id()[id] = sec(i); }
}
HARNESS h_flatten() {
  CodeHolder* c = make_holder(Arch::kX64, 4);
  permute_ids();
  symbolic_sections<16>(false);
  if (flatten_checked(c, 0)) V_WITNESS("flatten-ok"); else V_WITNESS("flatten-overflow");
}
HARNESS h_flatten_kf_C10a() {
  CodeHolder* c = make_holder(Arch::kX64, 4);
  symbolic_sections<16>(false);
  if (flatten_checked(c, 1)) V_WITNESS("flatten-ok-empty-section-padded");
}

// ---- copy_flattened_data into a guarded destination of symbolic size 0..DS, from the state flatten() leaves
template<uint32_t BS, uint32_t DS>
static void flatten_copy() {
  static uint8_t img[kImgSize<DS>], img_before[kImgSize<DS>];
  CodeHolder* c = make_holder(Arch::kX64, 4);
  symbolic_sections<BS>(false);
  if (c->flatten() != Error::kOk) return;  // flatten's own contract: h_flatten

  fill_image<DS>(img, img_before);
  size_t dst_size = nondet_u8() % (DS + 1);
  uint32_t flags = nondet_u32();
  bool pad_s = flags & 1, pad_t = flags & 2;
  uint8_t* dst = img + 8;

  bool room = true; uint64_t end = 0;
  for (uint32_t i = 0; i < 4; i++) {
    Section* s = sec(i);
    if (s->_offset > dst_size || dst_size - s->_offset < pre[i].bsize) room = false;
  }
  Error cerr = c->copy_flattened_data(dst, dst_size, CopySectionFlags(flags));
  verif_observe(uint64_t(cerr)); v_observe_bytes(img, sizeof(img));
  V_ASSERT((cerr == Error::kOk) == room, "copy succeeds iff every section buffer lies inside the destination");
  for (uint32_t j = 0; j < sizeof(img); j++)
    if (j < 8 || j >= 8 + dst_size) V_ASSERT(img[j] == img_before[j], "nothing written outside the destination");
  if (cerr != Error::kOk) { V_ASSERT(cerr == Error::kInvalidArgument, "too small destination is kInvalidArgument"); V_WITNESS("copy-refused"); return; }

  for (uint32_t i = 0; i < 4; i++) {
    Section* s = sec(i); uint64_t e = s->_offset + pre[i].bsize;
    if (pad_s && s->_virtual_size > pre[i].bsize) { uint64_t v = s->_virtual_size; uint64_t lim = dst_size - s->_offset; e = s->_offset + (v < lim ? v : lim); }
    if (e > end) end = e;
  }
  for (uint32_t j = 0; j < DS; j++) {
    if (j >= dst_size) continue;
    uint8_t expect = img_before[8 + j]; bool covered = false;
    for (uint32_t i = 0; i < 4; i++) {
      Section* s = sec(i); uint64_t o = s->_offset;
      if (j >= o && j - o < pre[i].bsize) { expect = sbuf[i][j - o]; covered = true; }
      else if (pad_s && j >= o && j - o >= pre[i].bsize && j - o < s->_virtual_size) { expect = 0; covered = true; }
    }
    if (!covered && pad_t && j >= end) expect = 0;
    V_ASSERT(dst[j] == expect, "image byte is the section byte at its offset, zero padding iff asked, else untouched");
  }
  V_WITNESS("copy-ok");
}
HARNESS h_flatten_copy() { flatten_copy<6, 24>(); }
HARNESS h_flatten_copy_mid() { flatten_copy<8, 32>(); }
HARNESS h_flatten_copy_big() { flatten_copy<12, 40>(); }

// copy_flattened_data from an arbitrary section table (offsets, sizes unconstrained: overlapping, huge, without offset):
// never writes outside the destination, refuses iff some buffer does not fit.
template<uint32_t BS, uint32_t DS>
static void copy_arbitrary() {
  static uint8_t img[kImgSize<DS>], img_before[kImgSize<DS>];
  CodeHolder* c = make_holder(Arch::kX64, 4);
  symbolic_sections<BS>(true);
  fill_image<DS>(img, img_before);
  size_t dst_size = nondet_u8() % (DS + 1);
  uint32_t flags = nondet_u32();
  bool room = true;
  for (uint32_t i = 0; i < 4; i++)
    if (pre[i].off > dst_size || dst_size - pre[i].off < pre[i].bsize) room = false;
  Error cerr = c->copy_flattened_data(img + 8, dst_size, CopySectionFlags(flags));
  verif_observe(uint64_t(cerr)); v_observe_bytes(img, sizeof(img));
  V_ASSERT((cerr == Error::kOk) == room, "arbitrary table: copy succeeds iff every section buffer lies inside the destination");
  for (uint32_t j = 0; j < sizeof(img); j++)
    if (j < 8 || j >= 8 + dst_size) V_ASSERT(img[j] == img_before[j], "arbitrary table: nothing written outside the destination");
  if (cerr == Error::kOk) {
    // the last section in order wins where buffers overlap
    for (uint32_t j = 0; j < DS; j++) {
      uint64_t o = pre[3].off;
      if (j < dst_size && j >= o && j - o < pre[3].bsize) V_ASSERT(img[8 + j] == sbuf[3][j - o], "arbitrary table: bytes of the last section in order are in the image");
    }
    V_WITNESS("copy-arbitrary-ok");
  }
  else V_WITNESS("copy-arbitrary-refused");
}
HARNESS h_copy_arbitrary() { copy_arbitrary<6, 24>(); }
HARNESS h_copy_arbitrary_mid() { copy_arbitrary<8, 32>(); }

