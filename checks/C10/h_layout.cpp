// C10 — section layout (CodeHolder::flatten / code_size), flattened copy (copy_flattened_data), ordered insertion (new_section).
// Pre-states are built directly: 4 sections in `_sections_by_order` sequence (flatten and the copy only look at that sequence),
// each with a symbolic power-of-two alignment 2^0..2^16 (text: also the built-in 0), a symbolic buffer size 0..16 with symbolic
// bytes and a full 64-bit symbolic virtual size, so every overflow path of the offset arithmetic is inside the query.
#include "ch_env.h"
using namespace asmjit;
using namespace chenv;

struct Pre { uint64_t virt, real, off; uint32_t al, bsize; };
static Pre pre[4];

static void symbolic_sections(bool symbolic_offsets) {
  for (uint32_t i = 0; i < 4; i++) {
    Section* s = sec(i);
    uint32_t k = nondet_u8() & 31; if (k > 16) k -= 16;
    uint32_t al = 1u << k;
    if (i == 0 && nondet_bool()) al = 0;  // the built-in .text has alignment 0 unless the user set one
    uint32_t bsize = nondet_u8() % 17;
    uint64_t virt = nondet_u64();
    s->_alignment = al; s->_virtual_size = virt; s->_buffer._size = bsize;
    if (symbolic_offsets) s->_offset = nondet_u64();
    for (uint32_t j = 0; j < 16; j++) sbuf[i][j] = nondet_u8();
    pre[i].al = al ? al : 1; pre[i].bsize = bsize; pre[i].virt = virt; pre[i].real = virt > bsize ? virt : bsize; pre[i].off = s->_offset;
  }
}

static uint8_t img[8 + 96 + 8], img_before[8 + 96 + 8];

HARNESS h_flatten_copy() {
  CodeHolder* c = make_holder(Arch::kX64, 4);
  symbolic_sections(false);

  // Reference: does the layout fit into 64 bits (exact arithmetic, first overflow is final)?
  bool fits = true; uint64_t run = 0;
  for (uint32_t i = 0; i < 4; i++) {
    if (!fits || !pre[i].real) continue;
    uint64_t a = pre[i].al;
    if (run > UINT64_MAX - (a - 1)) { fits = false; continue; }
    uint64_t aligned = (run + (a - 1)) & ~(a - 1);
    if (aligned > UINT64_MAX - pre[i].real) { fits = false; continue; }
    run = aligned + pre[i].real;
  }

  Error err = c->flatten();
  verif_observe(uint64_t(err));
  V_ASSERT((err == Error::kOk) == fits, "flatten succeeds iff the layout fits into 64 bits");
  if (err != Error::kOk) {
    V_ASSERT(err == Error::kTooLarge, "flatten overflow is reported as kTooLarge");
    for (uint32_t i = 0; i < 4; i++)
      V_ASSERT(sec(i)->_offset == pre[i].off && sec(i)->_virtual_size == pre[i].virt, "failed flatten leaves offsets and virtual sizes unchanged");
    V_WITNESS("flatten-overflow");
    return;
  }

  uint64_t end_prev = 0;
  for (uint32_t i = 0; i < 4; i++) {
    Section* s = sec(i); uint64_t off = s->_offset;
    verif_observe(off); verif_observe(s->_virtual_size);
    V_ASSERT(off >= end_prev, "section starts at or after the end of its predecessor in order");
    if (pre[i].real) {
      V_ASSERT((off & (uint64_t(pre[i].al) - 1)) == 0, "offset of a non-empty section respects its alignment");
      V_ASSERT(off - end_prev < pre[i].al, "no more padding than the alignment requires");
    }
    else V_ASSERT(off == end_prev, "empty section placed at the running offset");
    V_ASSERT(off <= UINT64_MAX - pre[i].real, "section end does not wrap");
    V_ASSERT(s->real_size() >= pre[i].real, "flatten never shrinks a section");
    if (i < 3) V_ASSERT(off <= UINT64_MAX - s->real_size() && off + s->real_size() <= sec(i + 1)->_offset, "extended size stays in front of the next section");
    else V_ASSERT(s->_virtual_size == pre[i].virt, "last section keeps its virtual size");
    end_prev = off + pre[i].real;
  }
  V_ASSERT(end_prev == run, "layout is the tightest one");
  V_ASSERT(uint64_t(c->code_size()) == end_prev, "code_size is the end of the last section");
  V_WITNESS("flatten-ok");

  // ---- copy_flattened_data into a guarded destination of symbolic size 0..96
  for (uint32_t j = 0; j < sizeof(img); j++) { img[j] = nondet_u8(); img_before[j] = img[j]; }
  size_t dst_size = nondet_u8() % 97;
  uint32_t flags = nondet_u32();
  bool pad_s = flags & 1, pad_t = flags & 2;
  uint8_t* dst = img + 8;

  bool room = true; uint64_t end = 0;
  for (uint32_t i = 0; i < 4; i++) {
    Section* s = sec(i);
    if (s->_offset > dst_size || dst_size - s->_offset < pre[i].bsize) room = false;
  }
  Error cerr = c->copy_flattened_data(dst, dst_size, CopySectionFlags(flags));
  verif_observe(uint64_t(cerr)); v_observe_bytes(img, sizeof(img));
  V_ASSERT((cerr == Error::kOk) == room, "copy succeeds iff every section buffer lies inside the destination");
  for (uint32_t j = 0; j < sizeof(img); j++)
    if (j < 8 || j >= 8 + dst_size) V_ASSERT(img[j] == img_before[j], "nothing written outside the destination");
  if (cerr != Error::kOk) { V_ASSERT(cerr == Error::kInvalidArgument, "too small destination is kInvalidArgument"); V_WITNESS("copy-refused"); return; }

  for (uint32_t i = 0; i < 4; i++) {
    Section* s = sec(i); uint64_t e = s->_offset + pre[i].bsize;
    if (pad_s && s->_virtual_size > pre[i].bsize) { uint64_t v = s->_virtual_size; uint64_t lim = dst_size - s->_offset; e = s->_offset + (v < lim ? v : lim); }
    if (e > end) end = e;
  }
  for (uint32_t j = 0; j < 96; j++) {
    if (j >= dst_size) continue;
    uint8_t expect = img_before[8 + j]; bool covered = false;
    for (uint32_t i = 0; i < 4; i++) {
      Section* s = sec(i); uint64_t o = s->_offset;
      if (j >= o && j - o < pre[i].bsize) { expect = sbuf[i][j - o]; covered = true; }
      else if (pad_s && j >= o && j - o >= pre[i].bsize && j - o < s->_virtual_size) { expect = 0; covered = true; }
    }
    if (!covered && pad_t && j >= end) expect = 0;
    V_ASSERT(dst[j] == expect, "image byte is the section byte at its offset, zero padding iff asked, else untouched");
  }
  V_WITNESS("copy-ok");
}

// copy_flattened_data from an arbitrary section table (offsets, sizes unconstrained: overlapping, huge, without offset):
// never writes outside the destination, refuses iff some buffer does not fit.
HARNESS h_copy_arbitrary() {
  CodeHolder* c = make_holder(Arch::kX64, 4);
  symbolic_sections(true);
  for (uint32_t j = 0; j < sizeof(img); j++) { img[j] = nondet_u8(); img_before[j] = img[j]; }
  size_t dst_size = nondet_u8() % 97;
  uint32_t flags = nondet_u32();
  bool room = true;
  for (uint32_t i = 0; i < 4; i++)
    if (pre[i].off > dst_size || dst_size - pre[i].off < pre[i].bsize) room = false;
  Error cerr = c->copy_flattened_data(img + 8, dst_size, CopySectionFlags(flags));
  verif_observe(uint64_t(cerr)); v_observe_bytes(img, sizeof(img));
  V_ASSERT((cerr == Error::kOk) == room, "arbitrary table: copy succeeds iff every section buffer lies inside the destination");
  for (uint32_t j = 0; j < sizeof(img); j++)
    if (j < 8 || j >= 8 + dst_size) V_ASSERT(img[j] == img_before[j], "arbitrary table: nothing written outside the destination");
  if (cerr == Error::kOk) {
    // the last section in order wins where buffers overlap
    for (uint32_t j = 0; j < 96; j++) {
      uint64_t o = pre[3].off;
      if (j < dst_size && j >= o && j - o < pre[3].bsize) V_ASSERT(img[8 + j] == sbuf[3][j - o], "arbitrary table: bytes of the last section in order are in the image");
    }
    V_WITNESS("copy-arbitrary-ok");
  }
  else V_WITNESS("copy-arbitrary-refused");
}

// new_section: ordered insertion into an arbitrary sorted table of 1..3 sections.
static char sname[40];
alignas(16) static Section arena_sections[2];
HARNESS h_new_section() {
  uint32_t n = 1 + nondet_u8() % 3;
  CodeHolder* c = make_holder(Arch::kX64, n);
  memset(arena_sections, 0xA5, sizeof(arena_sections)); set_arena(arena_sections, sizeof(arena_sections));
  // by-order sequence: a permutation with .text first; orders symbolic, constrained to be sorted by (order, id)
  if (n == 3 && nondet_bool()) { by_order[1] = sec(2); by_order[2] = sec(1); }
  for (uint32_t i = 1; i < n; i++) sec(i)->_order = int32_t(nondet_u32());
  for (uint32_t i = 0; i + 1 < n; i++) {
    Section* a = by_order[i]; Section* b = by_order[i + 1];
    V_ASSUME(a->_order < b->_order || (a->_order == b->_order && a->_section_id < b->_section_id));
  }
  Section* old_seq[3]; for (uint32_t i = 0; i < 3; i++) old_seq[i] = by_order[i];

  uint32_t alignment = nondet_u32(); int32_t order = int32_t(nondet_u32()); uint32_t flags = nondet_u32() & 0xFFFFu;
  memset(sname, 0, sizeof(sname));
  for (uint32_t i = 0; i < 3; i++) sname[i] = char(nondet_u8());
  size_t name_size = nondet_bool() ? SIZE_MAX : size_t(nondet_u8() % 40);
  size_t eff = name_size;
  if (name_size == SIZE_MAX) { eff = 0; while (eff < 3 && sname[eff]) eff++; }

  Section* out = reinterpret_cast<Section*>(sname);  // must be overwritten
  Error err = c->new_section(Out<Section*>(out), sname, name_size, SectionFlags(flags), alignment, order);
  verif_observe(uint64_t(err));
  bool pow2 = (alignment & (alignment - 1)) == 0;
  if (!pow2 || eff > Globals::kMaxSectionNameSize) {
    V_ASSERT(err != Error::kOk && out == nullptr, "new_section refuses a non-power-of-two alignment or an over-long name");
    V_ASSERT(err == (pow2 ? Error::kInvalidSectionName : Error::kInvalidArgument), "new_section error code");
    V_ASSERT(c->_sections._size == n && c->_sections_by_order._size == n, "refused new_section leaves the tables unchanged");
    for (uint32_t i = 0; i < n; i++) V_ASSERT(by_order[i] == old_seq[i], "refused new_section leaves the order unchanged");
    V_WITNESS("new-section-refused");
    return;
  }
  V_ASSERT(err == Error::kOk && out != nullptr, "new_section accepts valid arguments");
  V_ASSERT(c->_sections._size == n + 1 && by_id[n] == out && out->_section_id == n, "new section appended with the next id");
  V_ASSERT(out->_alignment == (alignment ? alignment : 1u) && out->_order == order && uint32_t(out->flags()) == flags, "new section carries alignment, order and flags");
  V_ASSERT(out->_offset == Globals::kNoSectionOffset && out->_virtual_size == 0, "new section has no offset and no virtual size");
  V_ASSERT(out->_buffer._data == nullptr && out->_buffer._size == 0 && out->_buffer._capacity == 0, "new section has an empty buffer");
  for (uint32_t i = 0; i < 3; i++) if (i < eff) V_ASSERT(out->_name.str[i] == sname[i], "new section name copied");
  V_ASSERT(c->_sections_by_order._size == n + 1, "by-order table grew by one");
  uint32_t k = 0; bool seen = false;
  for (uint32_t i = 0; i < 4; i++) {
    if (i > n) continue;
    Section* s = by_order[i];
    if (s == out) { V_ASSERT(!seen, "new section appears once in the by-order table"); seen = true; }
    else { V_ASSERT(k < n && s == old_seq[k], "existing sections keep their relative order"); k++; }
    if (i + 1 <= n) {
      Section* t = by_order[i + 1];
      V_ASSERT(s->_order < t->_order || (s->_order == t->_order && s->_section_id < t->_section_id), "by-order table sorted by (order, id)");
    }
  }
  V_ASSERT(seen && k == n, "by-order table is the old sequence plus the new section");
  V_ASSERT(by_order[0] == sec(0), "the built-in text section stays first");
  V_WITNESS("new-section-ok");
}
