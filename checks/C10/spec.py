# C10 — section layout and flattened copy
UNITS = [
    Unit('layout', harness=['h_layout.cpp'], repo_units=['asmjit/core/codeholder.cpp']),
    Unit('relocsize', harness=['../C04/h_addrtab.cpp'], repo_units=['asmjit/core/codeholder.cpp', 'asmjit/core/codewriter.cpp']),
    Unit('newsect', harness=['h_newsect.cpp'], repo_units=['asmjit/core/codeholder.cpp'], extra_c=['memmove_words.c']),
]
B_SEC = '4 sections in by-order sequence (h_flatten: section ids = creation order is one of three permutations of it); alignment 2^0..2^16 each (text also 0); virtual size all 2^64 values; '
HARNESSES = [
    Harness('layout', 'h_flatten', unwind=17, bounds=B_SEC + 'buffer size 0..16', mem_gb=1, timeout=900),
    Harness('layout', 'h_flatten_kf_C10a', unwind=17, known='C10a', bounds=B_SEC + 'buffer size 0..16; confined to: an empty section receives alignment padding as virtual size', mem_gb=1, timeout=900),
    Harness('layout', 'h_flatten_copy', unwind=65, bounds=B_SEC + 'buffer size 0..6 with symbolic bytes; destination size 0..24 with symbolic previous content inside one array with 8 leading and 32 trailing guard bytes (fixed pattern); all 2^32 CopySectionFlags values', mem_gb=4, timeout=900),
    Harness('layout', 'h_flatten_copy_mid', unwind=81, bounds=B_SEC + 'buffer size 0..8; destination size 0..32; all flags', mem_gb=6, timeout=1800, tiers=('thorough',)),
    Harness('layout', 'h_flatten_copy_big', unwind=97, bounds=B_SEC + 'buffer size 0..12; destination size 0..40; all flags', mem_gb=8, timeout=3600, tiers=('thorough',)),
    Harness('layout', 'h_copy_arbitrary', unwind=65, bounds=B_SEC + 'buffer size 0..6; section offsets all 2^64 values (overlapping / unset included); destination 0..24', mem_gb=3, timeout=900),
    Harness('layout', 'h_copy_arbitrary_mid', unwind=81, bounds=B_SEC + 'buffer size 0..8; section offsets all 2^64 values; destination 0..32', mem_gb=4, timeout=1800, tiers=('thorough',)),
    Harness('newsect', 'h_new_section', unwind=6, bounds='1..3 existing sections in any (order,id)-sorted sequence with symbolic int32 orders; new order int32, alignment uint32, flags 16 bit, name size 0..39 or strlen', mem_gb=2, timeout=600),
    # size estimated before relocation >= size after it, and after == estimate - RelocationSummary.code_size_reduction (the C04 address-table harness)
    Harness('relocsize', 'h_addrtab_one', unwind=33, bounds='x86-64; one call/jmp site, target and base all 2^64; .text + user section before or after .addrtab; flatten, code_size, relocate_to_base, code_size', mem_gb=2, timeout=900),
]
EXPLANATION = 'bounded symbolic execution (CBMC) of the real CodeHolder::flatten / code_size / copy_flattened_data / new_section / relocate_to_base compiled from /repo, from directly constructed section tables; oracles are exact-arithmetic layout rules and a byte-by-byte image specification written in the harness'
OUTSIDE = ['more than 4 sections (the loops are uniform in the section count)', 'section buffers larger than 16 bytes (flatten) / 12 bytes (copy) / destinations larger than 40 bytes (quick tier: 6 / 24)',
           'section name termination beyond name_size (new_section does not clear _name; not part of the stated property)',
           'JitRuntime::_add (mmap side); its size bookkeeping is covered by h_reloc_size']
ASSUMPTIONS = ['unit newsect: memmove is modelled by checks/C10/memmove_words.c (pointer-sized words when length and offsets are multiples of 8, bytes otherwise; CBMC\'s built-in model havocs pointer arrays for a symbolic length); the same C file is linked into the native twin of the generated C',
               'Arena::_alloc_oneshot / ArenaVector growth / CodeHolder::grow_buffer are stubs that assert they are not reached (include/ch_env.h); arena block end is the highest address (see ch_env.h)',
               'section tables are built directly in static storage (CodeHolder::init is C16); arena = one static 1 KiB block',
               'copy_flattened_data is specified against the state flatten() leaves (it is documented for flattened code only); h_copy_arbitrary covers every other state for memory safety and the refusal rule',
               '"too small" for copy_flattened_data = some section buffer [offset, offset+buffer_size) does not lie inside the destination; virtual-size-only tails are truncated to the destination, as documented']
