/* memmove model for the 'newsect' unit (CBMC and the native twin of the generated C).
 * CBMC's built-in memmove is exact for a symbolic length only on byte arrays; on an array of pointers
 * (ArenaVector<Section*>::insert_unchecked shifting the tail of _sections_by_order) it havocs the destination.
 * This model copies pointer-sized words when length and both offsets are multiples of 8 and falls back to bytes otherwise. */
#include <stdint.h>
#include <stddef.h>
void* memmove(void* d, const void* s, size_t n) {
#ifdef __CPROVER__
  _Bool words = (n & 7) == 0 && (__CPROVER_POINTER_OFFSET(d) & 7) == 0 && (__CPROVER_POINTER_OFFSET(s) & 7) == 0;
  _Bool up = __CPROVER_same_object(d, s) ? __CPROVER_POINTER_OFFSET(d) > __CPROVER_POINTER_OFFSET(s) : 0;
#else
  _Bool words = (n & 7) == 0 && (((uintptr_t)d | (uintptr_t)s) & 7) == 0;
  _Bool up = (uintptr_t)d > (uintptr_t)s;
#endif
  if (words) {
    void** dd = (void**)d; void* const* ss = (void* const*)s; size_t k = n >> 3;
    if (!up) for (size_t i = 0; i < k; i++) dd[i] = ss[i];
    else for (size_t i = k; i > 0; i--) dd[i - 1] = ss[i - 1];
  }
  else {
#ifdef __CPROVER__
    if (n > 0) { char src_n[n]; __CPROVER_array_copy(src_n, (const char*)s); __CPROVER_array_replace((char*)d, src_n); }
    return d;
#endif
    unsigned char* dd = (unsigned char*)d; const unsigned char* ss = (const unsigned char*)s;
    if (!up) for (size_t i = 0; i < n; i++) dd[i] = ss[i];
    else for (size_t i = n; i > 0; i--) dd[i - 1] = ss[i - 1];
  }
  return d;
}
