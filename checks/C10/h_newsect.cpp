// C10 — CodeHolder::new_section: ordered insertion (lower_bound on (order, id)) into an arbitrary sorted section table.
#include "ch_env.h"
using namespace asmjit;
using namespace chenv;

// new_section: ordered insertion into an arbitrary sorted table of 1..3 sections.
static char sname[40];
alignas(16) static uint8_t arena_sections[2 * sizeof(Section)];
HARNESS h_new_section() {
  uint32_t n = 1 + nondet_u8() % 3;
  CodeHolder* c = make_holder(Arch::kX64, n);
  memset(arena_sections, 0xA5, sizeof(arena_sections)); set_arena(arena_sections, sizeof(arena_sections));
  // by-order sequence: a permutation with .text first; orders symbolic, constrained to be sorted by (order, id)
  if (n == 3 && nondet_bool()) { by_order()[1] = sec(2); by_order()[2] = sec(1); }
  for (uint32_t i = 1; i < n; i++) sec(i)->_order = int32_t(nondet_u32());
  for (uint32_t i = 0; i + 1 < n; i++) {
    Section* a = by_order()[i]; Section* b = by_order()[i + 1];
    V_ASSUME(a->_order < b->_order || (a->_order == b->_order && a->_section_id < b->_section_id));
  }
  Section* old_seq[3]; for (uint32_t i = 0; i < 3; i++) old_seq[i] = by_order()[i];

  uint32_t alignment = nondet_u32(); int32_t order = int32_t(nondet_u32()); uint32_t flags = nondet_u32() & 0xFFFFu;
  memset(sname, 0, sizeof(sname));
  for (uint32_t i = 0; i < 3; i++) sname[i] = char(nondet_u8());
  size_t name_size = nondet_bool() ? SIZE_MAX : size_t(nondet_u8() % 40);
  size_t eff = name_size;
  if (name_size == SIZE_MAX) { eff = 0; while (eff < 3 && sname[eff]) eff++; }

  Section* out = reinterpret_cast<Section*>(sname);  // must be overwritten
  Error err = c->new_section(Out<Section*>(out), sname, name_size, SectionFlags(flags), alignment, order);
  verif_observe(uint64_t(err));
  bool pow2 = (alignment & (alignment - 1)) == 0;
  if (!pow2 || eff > Globals::kMaxSectionNameSize) {
    V_ASSERT(err != Error::kOk && out == nullptr, "new_section refuses a non-power-of-two alignment or an over-long name");
    V_ASSERT(err == (pow2 ? Error::kInvalidSectionName : Error::kInvalidArgument), "new_section error code");
    V_ASSERT(c->_sections._size == n && c->_sections_by_order._size == n, "refused new_section leaves the tables unchanged");
    for (uint32_t i = 0; i < 3; i++) if (i < n) V_ASSERT(by_order()[i] == old_seq[i], "refused new_section leaves the order unchanged");
    V_WITNESS("new-section-refused");
    return;
  }
  V_ASSERT(err == Error::kOk && out != nullptr, "new_section accepts valid arguments");
  V_ASSERT(c->_sections._size == n + 1 && by_id()[n] == out && out->_section_id == n, "new section appended with the next id");
  V_ASSERT(out->_alignment == (alignment ? alignment : 1u) && out->_order == order && uint32_t(out->flags()) == flags, "new section carries alignment, order and flags");
  V_ASSERT(out->_offset == Globals::kNoSectionOffset && out->_virtual_size == 0, "new section has no offset and no virtual size");
  V_ASSERT(out->_buffer._data == nullptr && out->_buffer._size == 0 && out->_buffer._capacity == 0, "new section has an empty buffer");
  for (uint32_t i = 0; i < 3; i++) if (i < eff) V_ASSERT(out->_name.str[i] == sname[i], "new section name copied");
  V_ASSERT(c->_sections_by_order._size == n + 1, "by-order table grew by one");
  uint32_t k = 0; bool seen = false;
  for (uint32_t i = 0; i < 4; i++) {
    if (i > n) continue;
    Section* s = by_order()[i];
    if (s == out) { V_ASSERT(!seen, "new section appears once in the by-order table"); seen = true; }
    else { V_ASSERT(k < n && s == old_seq[k < 3 ? k : 2], "existing sections keep their relative order"); k++; }
    if (i + 1 <= n) {
      Section* t = by_order()[i + 1];
      V_ASSERT(s->_order < t->_order || (s->_order == t->_order && s->_section_id < t->_section_id), "by-order table sorted by (order, id)");
    }
  }
  V_ASSERT(seen && k == n, "by-order table is the old sequence plus the new section");
  V_ASSERT(by_order()[0] == sec(0), "the built-in text section stays first");
  V_WITNESS("new-section-ok");
}
