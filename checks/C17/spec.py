# C17 — displacement and immediate codecs
UNITS = [
    Unit('offset', harness=['h_offset.cpp'], repo_units=['asmjit/core/codewriter.cpp']),
    # the harness #includes asmjit/arm/a64assembler.cpp to reach its file-local immediate encoders
    Unit('a64imm', harness=['h_a64imm.cpp'], repo_units=[]),
]
B_OFF = 'all 2^64 offsets; every (bit count, shift) that fits the word; discarded LSBs 0..16 (in use: 0..2); value offset 0 or 3 inside a symbolic 16-byte window whose field bits are zero'
HARNESSES = [Harness('offset', 'h_off_%s_%d' % (k, vs), unwind=17, bounds='word size %d; ' % vs + B_OFF) for k in ('signed', 'unsigned') for vs in (1, 2, 4, 8)] + [
    Harness('offset', 'h_off_a64_adr', unwind=17, bounds='all 2^64 offsets, ADR and ADRP formats (4,5,21,0)'),
    Harness('offset', 'h_off_malformed', unwind=17, bounds='all field values of OffsetFormat except the A32 sign-bit types'),
]
HARNESSES += [
    Harness('a64imm', 'h_logical64_sound', unwind=66, bounds='all 2^64 values'),
    Harness('a64imm', 'h_logical64_complete', unwind=66, bounds='all 2^13 (N,immr,imms)'),
    Harness('a64imm', 'h_logical32_sound', unwind=34, bounds='all 2^32 values'),
    Harness('a64imm', 'h_logical32_complete', unwind=34, bounds='all 2^12 (immr,imms)'),
    Harness('a64imm', 'h_add_sub_imm', unwind=4, bounds='all 2^64 values'),
    Harness('a64imm', 'h_fp_imm8', unwind=4, bounds='all 256 imm8 per width; all 2^64 / 2^32 / 2^16 bit patterns'),
    Harness('a64imm', 'h_byte_mask', unwind=9, bounds='all 2^64 values'),
    Harness('a64imm', 'h_mov_sequence', unwind=6, bounds='all 2^64 (X) and 2^32 (W) immediates, all 32 Rd'),
    Harness('a64imm', 'h_lmh', unwind=4, bounds='all size fields, element index 0..255'),
]
EXPLANATION = 'bounded symbolic execution (CBMC) of the real codec functions compiled from /repo; oracles are independent reference decoders in the harness'
OUTSIDE = ['Thumb/A32 offset formats (no producer in this tree)']
ASSUMPTIONS = ['field bits of the patched word are zero before patching (both back ends emit zero placeholders; write_offset ORs the field in)']
