// C17 — displacement field codec (CodeWriterUtils::write_offset / encode_offset32 / encode_offset64).
// Symbolic: format geometry, the offset (all 2^64 values), the surrounding bytes. Oracle: reference decoders below.
// Only formats that this tree's back ends create are claimed (signed/unsigned fields in 1/2/4/8-byte words,
// AArch64 ADR/ADRP); the Thumb/A32 formats have no producer in this tree (no A32 assembler) — see DESIGN.md C17.
#include <asmjit/core.h>
#include <asmjit/core/codewriter_p.h>
#include "verif.h"
using namespace asmjit;

static inline uint64_t lsbmask64(uint32_t n) { return n >= 64 ? ~0ull : ((1ull << n) - 1); }
static inline int64_t sext64(uint64_t v, uint32_t bits) { return bits >= 64 ? (int64_t)v : (int64_t)(v << (64 - bits)) >> (64 - bits); }

struct Ctx {
  OffsetFormat f;
  uint8_t before[16], buf[16];
  int64_t off;
  uint64_t word_before, word_after;
  bool ok;
};

// VS (word size) and VO (value offset inside the region) are compile-time constants per instantiation so that
// every buffer index is concrete for the solver; the harness picks the instantiation with a symbolic choice.
template<uint32_t VS, uint32_t VO>
static void run_write(Ctx& c, OffsetType type, uint32_t bits, uint32_t shift, uint32_t disc, uint64_t field_mask) {
  c.f.reset_to_imm_value(type, VS, shift, bits, disc);
  c.f.set_region(VS + VO + (nondet_u8() & 3), VO);
  for (int i = 0; i < 16; i++) c.before[i] = nondet_u8();
  // Precondition of patching (how both back ends use it): the field bits are zero in the emitted placeholder.
  uint64_t wb = 0;
  for (uint32_t i = 0; i < VS; i++) wb |= uint64_t(c.before[VO + i]) << (8 * i);
  wb &= ~field_mask;
  for (uint32_t i = 0; i < VS; i++) c.before[VO + i] = uint8_t(wb >> (8 * i));
  c.word_before = wb;
  memcpy(c.buf, c.before, 16);
  c.off = (int64_t)nondet_u64();
  c.ok = CodeWriterUtils::write_offset(c.buf, c.off, c.f);
  uint64_t wa = 0;
  for (uint32_t i = 0; i < VS; i++) wa |= uint64_t(c.buf[VO + i]) << (8 * i);
  c.word_after = wa;
  verif_observe(c.ok); v_observe_bytes(c.buf, 16);
  // Bytes outside the patched word are never touched, whatever the verdict.
  for (uint32_t i = 0; i < 16; i++)
    if (i < VO || i >= VO + VS) V_ASSERT(c.buf[i] == c.before[i], "bytes outside the patched word untouched");
  if (!c.ok) V_ASSERT(c.word_after == c.word_before, "failure leaves the word unchanged");
  else V_ASSERT((c.word_after & ~field_mask) == (c.word_before & ~field_mask), "bits outside the field untouched");
}
template<uint32_t VS>
static void run_write_vo(Ctx& c, OffsetType type, uint32_t bits, uint32_t shift, uint32_t disc, uint64_t field_mask) {
  if (nondet_bool()) run_write<VS, 3>(c, type, bits, shift, disc, field_mask);
  else run_write<VS, 0>(c, type, bits, shift, disc, field_mask);
}

struct Geo { uint32_t bits, shift, disc; };
template<uint32_t VS>
static Geo pick_geo() {
  Geo g; constexpr uint32_t w = VS * 8;
  g.bits = 1 + (nondet_u8() & (w - 1)); g.shift = nondet_u8() & (w - 1); g.disc = nondet_u8() & 31;
  V_ASSUME(g.bits + g.shift <= w && g.disc <= 16);
  return g;
}

template<uint32_t VS>
static void check_signed() {
  Ctx c; Geo g = pick_geo<VS>(); uint32_t bits = g.bits, shift = g.shift, disc = g.disc;
  uint64_t mask = lsbmask64(bits) << shift;
  run_write_vo<VS>(c, OffsetType::kSignedOffset, bits, shift, disc, mask);
  bool representable = (uint64_t(c.off) & lsbmask64(disc)) == 0 && sext64(uint64_t(c.off >> disc) & lsbmask64(bits), bits) == (c.off >> disc);
  V_ASSERT(c.ok == representable, "signed: accepted iff representable");
  if (c.ok) {
    int64_t dec = sext64((c.word_after & mask) >> shift, bits);
    V_ASSERT(dec == (c.off >> disc) && (uint64_t(dec) << disc) == uint64_t(c.off), "signed: field decodes to the displacement");
    V_WITNESS("signed-accepted");
  } else V_WITNESS("signed-refused");
}
template<uint32_t VS>
static void check_unsigned() {
  Ctx c; Geo g = pick_geo<VS>(); uint32_t bits = g.bits, shift = g.shift, disc = g.disc;
  uint64_t mask = lsbmask64(bits) << shift;
  run_write_vo<VS>(c, OffsetType::kUnsignedOffset, bits, shift, disc, mask);
  // 8-byte words carry absolute 64-bit addresses: the int64 argument is the address's bit pattern. Narrower words refuse
  // negative values.
  bool representable = (VS == 8 || c.off >= 0) && (uint64_t(c.off) & lsbmask64(disc)) == 0 && (uint64_t(c.off) >> disc) <= lsbmask64(bits);
  V_ASSERT(c.ok == representable, "unsigned: accepted iff representable");
  if (c.ok) {
    uint64_t dec = (c.word_after & mask) >> shift;
    V_ASSERT((dec << disc) == uint64_t(c.off), "unsigned: field decodes to the displacement");
    V_WITNESS("unsigned-accepted");
  } else V_WITNESS("unsigned-refused");
}

HARNESS h_off_signed_1() { check_signed<1>(); }
HARNESS h_off_signed_2() { check_signed<2>(); }
HARNESS h_off_signed_4() { check_signed<4>(); }
HARNESS h_off_signed_8() { check_signed<8>(); }
HARNESS h_off_unsigned_1() { check_unsigned<1>(); }
HARNESS h_off_unsigned_2() { check_unsigned<2>(); }
HARNESS h_off_unsigned_4() { check_unsigned<4>(); }
HARNESS h_off_unsigned_8() { check_unsigned<8>(); }

// AArch64 ADR / ADRP: [.|immlo:2|.....|immhi:19|.....], signed 21 bits (ADRP: caller passes the page delta).
HARNESS h_off_a64_adr() {
  Ctx c; bool adrp = nondet_bool();
  uint64_t mask = (3ull << 29) | (lsbmask64(19) << 5);
  run_write_vo<4>(c, adrp ? OffsetType::kAArch64_ADRP : OffsetType::kAArch64_ADR, 21, 5, 0, mask);
  bool representable = c.off >= -(1ll << 20) && c.off < (1ll << 20);
  V_ASSERT(c.ok == representable, "adr: accepted iff 21-bit signed");
  if (c.ok) {
    uint32_t w = (uint32_t)c.word_after;
    uint64_t immlo = (w >> 29) & 3, immhi = (w >> 5) & 0x7FFFF;
    V_ASSERT(sext64((immhi << 2) | immlo, 21) == c.off, "adr: immhi:immlo decodes to the displacement");
    V_WITNESS("adr-accepted");
  } else V_WITNESS("adr-refused");
}

// Formats outside the geometry the type supports (ADR with other bit counts, sizes 0/3/5.., type values beyond the
// enum) are refused without touching memory.
HARNESS h_off_malformed() {
  OffsetFormat f; uint8_t before[16], buf[16];
  f._type = OffsetType(nondet_u8() & 15); f._flags = 0; f._region_size = 8;
  f._value_size = nondet_u8() & 15; f._value_offset = nondet_u8() & 3;
  f._imm_bit_count = nondet_u8(); f._imm_bit_shift = nondet_u8() & 63; f._imm_discard_lsb = nondet_u8() & 31;
  V_ASSUME(!f.has_sign_bit());  // A32-only formats: no producer in this tree
  V_ASSUME(f._imm_bit_shift < 8u * (f._value_size ? f._value_size : 1));  // asserted by reset_to_imm_value
  for (int i = 0; i < 16; i++) before[i] = nondet_u8();
  memcpy(buf, before, 16);
  int64_t off = (int64_t)nondet_u64();
  bool ok = CodeWriterUtils::write_offset(buf, off, f);
  bool size_ok = f._value_size == 1 || f._value_size == 2 || f._value_size == 4 || f._value_size == 8;
  if (!size_ok || f._imm_bit_count == 0 || f._imm_bit_count > f._value_size * 8 || uint8_t(f._type) > uint8_t(OffsetType::kMaxValue)) {
    V_ASSERT(!ok, "malformed format is refused");
    V_WITNESS("malformed-refused");
  }
  if (!ok) for (int i = 0; i < 16; i++) V_ASSERT(buf[i] == before[i], "refusal writes nothing");
  else {
    for (uint32_t i = 0; i < 16; i++)
      if (i < f._value_offset || i >= uint32_t(f._value_offset) + f._value_size) V_ASSERT(buf[i] == before[i], "bytes outside the word untouched");
    V_WITNESS("wellformed-accepted");
  }
}
