// C17 — AArch64 immediate codecs: logical bitmask immediates, add/sub, FP8, byte masks (arm/armutils.h) and the
// move-wide sequences / element-index split that live as static functions in a64assembler.cpp (reached by #include).
#include "verif.h"
#include <asmjit/arm/a64assembler.cpp>
using namespace asmjit;

// ---- reference: DecodeBitMasks (ARM ARM, shared/functions/aarch64 DecodeBitMasks), returns false if reserved.
static inline uint64_t ones64(uint32_t n) { return n >= 64 ? ~0ull : ((1ull << n) - 1); }
static uint64_t ror_elem(uint64_t x, uint32_t r, uint32_t w) { uint64_t m = ones64(w); x &= m; r %= w; return r ? ((x >> r) | (x << (w - r))) & m : x; }
static bool ref_decode_bitmask(uint32_t n, uint32_t imms, uint32_t immr, uint32_t width, uint64_t* out) {
  uint32_t v = (n << 6) | (~imms & 0x3F);
  int len = -1;
  for (int i = 6; i >= 0; i--) if (v & (1u << i)) { len = i; break; }
  if (len < 1) return false;
  if (width == 32 && n) return false;
  uint32_t esize = 1u << len, levels = esize - 1;
  uint32_t s = imms & levels, r = immr & levels;
  if (s == levels) return false;
  uint64_t e = ror_elem(ones64(s + 1), r, esize);
  uint64_t res = 0;
  for (uint32_t i = 0; i < width; i += esize) res |= e << i;
  *out = res; return true;
}

HARNESS h_logical64_sound() {
  uint64_t imm = nondet_u64();
  arm::Utils::LogicalImm li;
  bool ok = arm::Utils::encode_logical_imm(imm, 64, Out(li));
  verif_observe(ok);
  if (ok) {
    verif_observe(li.n); verif_observe(li.s); verif_observe(li.r);
    V_ASSERT(li.n <= 1 && li.s < 64 && li.r < 64, "logical64: field ranges");
    uint64_t back = 0; bool d = ref_decode_bitmask(li.n, li.s, li.r, 64, &back);
    V_ASSERT(d, "logical64: encoded fields are not a reserved combination");
    V_ASSERT(back == imm, "logical64: N:immr:imms decode to the value requested");
    V_WITNESS("logical64-accepted");
  } else V_WITNESS("logical64-refused");
}
HARNESS h_logical64_complete() {
  uint32_t n = nondet_u32() & 1, s = nondet_u32() & 63, r = nondet_u32() & 63;
  uint64_t v = 0;
  if (ref_decode_bitmask(n, s, r, 64, &v)) {
    arm::Utils::LogicalImm li;
    bool ok = arm::Utils::encode_logical_imm(v, 64, Out(li));
    verif_observe(ok);
    V_ASSERT(ok, "logical64: every architectural bitmask immediate is accepted");
    V_WITNESS("logical64-complete");
  }
}
HARNESS h_logical32_sound() {
  uint32_t imm = nondet_u32();
  arm::Utils::LogicalImm li;
  bool ok = arm::Utils::encode_logical_imm(imm, 32, Out(li));
  verif_observe(ok);
  if (ok) {
    V_ASSERT(li.n == 0 && li.s < 64 && li.r < 32, "logical32: field ranges (N must be 0)");
    uint64_t back = 0; bool d = ref_decode_bitmask(li.n, li.s, li.r, 32, &back);
    V_ASSERT(d, "logical32: encoded fields are not a reserved combination");
    V_ASSERT(back == imm, "logical32: N:immr:imms decode to the value requested");
    V_WITNESS("logical32-accepted");
  } else V_WITNESS("logical32-refused");
}
HARNESS h_logical32_complete() {
  uint32_t s = nondet_u32() & 63, r = nondet_u32() & 63;
  uint64_t v = 0;
  if (ref_decode_bitmask(0, s, r, 32, &v)) {
    arm::Utils::LogicalImm li;
    bool ok = arm::Utils::encode_logical_imm(v, 32, Out(li));
    V_ASSERT(ok, "logical32: every architectural bitmask immediate is accepted");
    V_WITNESS("logical32-complete");
  }
}

HARNESS h_add_sub_imm() {
  uint64_t imm = nondet_u64();
  bool ok = arm::Utils::is_add_sub_imm(imm);
  // reference: imm == imm12 << sh for sh in {0,12}
  bool ref = (imm >> 12) == 0 || ((imm & 0xFFF) == 0 && (imm >> 24) == 0);
  V_ASSERT(ok == ref, "add/sub immediate: accepted iff imm12 or imm12<<12");
  if (ok) V_WITNESS("addsub-accepted"); else V_WITNESS("addsub-refused");
}

// ---- reference: VFPExpandImm (ARM ARM) for N = 16/32/64.
static uint64_t ref_vfp_expand(uint32_t imm8, uint32_t N) {
  uint32_t E = N == 16 ? 5 : N == 32 ? 8 : 11, F = N - E - 1;
  uint64_t sign = (imm8 >> 7) & 1, b6 = (imm8 >> 6) & 1;
  uint64_t exp = ((b6 ^ 1) << (E - 1)) | ((b6 ? ones64(E - 3) : 0) << 2) | ((imm8 >> 4) & 3);
  uint64_t frac = uint64_t(imm8 & 0xF) << (F - 4);
  return (sign << (N - 1)) | (exp << F) | frac;
}
HARNESS h_fp_imm8() {
  uint32_t kind = nondet_u8() & 3; V_ASSUME(kind < 3);
  if (nondet_bool()) {
    // complete + round trip: every imm8 expands to a value that is accepted and encodes back to imm8
    uint32_t imm8 = nondet_u8();
    if (kind == 2) { uint64_t v = ref_vfp_expand(imm8, 64); V_ASSERT(arm::Utils::is_fp64_imm8(v), "fp64: every VFPExpandImm value is accepted"); V_ASSERT(arm::Utils::encode_fp64_to_imm8(v) == imm8, "fp64: encodes back to imm8"); }
    else if (kind == 1) { uint32_t v = (uint32_t)ref_vfp_expand(imm8, 32); V_ASSERT(arm::Utils::is_fp32_imm8(v), "fp32: every VFPExpandImm value is accepted");
      V_ASSERT((arm::Utils::encode_fp_to_imm8_generic<uint32_t, 6, 6, 19>(v)) == imm8, "fp32: encodes back to imm8"); }
    else { uint32_t v = (uint32_t)ref_vfp_expand(imm8, 16); V_ASSERT(arm::Utils::is_fp16_imm8(v), "fp16: every VFPExpandImm value is accepted");
      V_ASSERT((arm::Utils::encode_fp_to_imm8_generic<uint32_t, 3, 6, 6>(v)) == imm8, "fp16: encodes back to imm8"); }
    V_WITNESS("fp-complete");
  } else {
    // sound: an accepted value is the expansion of its imm8
    if (kind == 2) { uint64_t v = nondet_u64(); if (arm::Utils::is_fp64_imm8(v)) { V_ASSERT(ref_vfp_expand(arm::Utils::encode_fp64_to_imm8(v), 64) == v, "fp64: accepted value decodes back"); V_WITNESS("fp64-accepted"); } }
    else if (kind == 1) { uint32_t v = nondet_u32(); if (arm::Utils::is_fp32_imm8(v)) { V_ASSERT(ref_vfp_expand(arm::Utils::encode_fp_to_imm8_generic<uint32_t, 6, 6, 19>(v), 32) == v, "fp32: accepted value decodes back"); V_WITNESS("fp32-accepted"); } }
    else { uint32_t v = nondet_u16(); if (arm::Utils::is_fp16_imm8(v)) { V_ASSERT(ref_vfp_expand(arm::Utils::encode_fp_to_imm8_generic<uint32_t, 3, 6, 6>(v), 16) == v, "fp16: accepted value decodes back"); V_WITNESS("fp16-accepted"); } }
  }
}

HARNESS h_byte_mask() {
  uint64_t imm = nondet_u64();
  bool ok = arm::Utils::is_byte_mask_imm(imm);
  bool ref = true; uint32_t ref8 = 0;
  for (int i = 0; i < 8; i++) { uint32_t b = (imm >> (8 * i)) & 0xFF; if (b != 0 && b != 0xFF) ref = false; if (b == 0xFF) ref8 |= 1u << i; }
  V_ASSERT(ok == ref, "byte mask: accepted iff every byte is 00 or FF");
  if (ok) { V_ASSERT(arm::Utils::encode_imm64_byte_mask_to_imm8(imm) == ref8, "byte mask: imm8 bit i <=> byte i is FF (AdvSIMDExpandImm op=1 cmode=1110)"); V_WITNESS("bytemask-accepted"); }
  else V_WITNESS("bytemask-refused");
}

// ---- move-wide sequences, interpreted with MOVZ/MOVN/MOVK semantics (ARM ARM C6.2).
static bool ref_exec_movw(const uint32_t* w, uint32_t count, uint32_t rd, uint64_t* out) {
  uint64_t x = 0xA5A5A5A5A5A5A5A5ull;  // garbage in Xd before the sequence
  for (uint32_t i = 0; i < count; i++) {
    uint32_t ins = w[i];
    if (((ins >> 23) & 0x3F) != 0x25) return false;
    uint32_t sf = ins >> 31, opc = (ins >> 29) & 3, hw = (ins >> 21) & 3; uint64_t imm16 = (ins >> 5) & 0xFFFF;
    if ((ins & 31) != rd) return false;
    if (!sf && hw >= 2) return false;
    if (opc == 1) return false;
    uint32_t pos = hw * 16; uint64_t v;
    if (opc == 2) v = imm16 << pos;                  // MOVZ
    else if (opc == 0) v = ~(imm16 << pos);          // MOVN
    else { if (i == 0) return false; v = (x & ~(0xFFFFull << pos)) | (imm16 << pos); }  // MOVK needs a defined register
    x = sf ? v : (v & 0xFFFFFFFFull);
  }
  *out = x; return true;
}
static inline uint32_t hw_count(uint64_t v, uint32_t pat) { uint32_t n = 0; for (int i = 0; i < 4; i++) n += ((v >> (16 * i)) & 0xFFFF) == pat; return n; }
HARNESS h_mov_sequence() {
  uint32_t out[4] = { 0, 0, 0, 0 };
  uint32_t rd = nondet_u8() & 31; bool x = nondet_bool();
  uint64_t imm = x ? nondet_u64() : uint64_t(nondet_u32());
  uint32_t count = x ? a64::encode_mov_sequence_64(out, imm, rd, 1) : a64::encode_mov_sequence_32(out, uint32_t(imm), rd, 0);
  verif_observe(count); for (int i = 0; i < 4; i++) verif_observe(out[i]);
  V_ASSERT(count >= 1 && count <= (x ? 4u : 2u), "mov sequence: 1..4 (1..2) instructions");
  uint64_t res = 0; bool ok = ref_exec_movw(out, count, rd, &res);
  V_ASSERT(ok, "mov sequence: every word is a well-formed MOVZ/MOVN/MOVK on Rd");
  V_ASSERT(res == imm, "mov sequence: executing it leaves the requested value in Rd");
  uint32_t best = 4 - hw_count(imm, 0); uint32_t bestn = 4 - hw_count(imm, 0xFFFF);
  if (bestn < best) best = bestn; if (best == 0) best = 1;
  V_ASSERT(count <= best, "mov sequence: not longer than the MOVZ- or MOVN-led minimum");
  V_WITNESS("movseq");
}

HARNESS h_lmh() {
  uint32_t size = nondet_u8() & 3, idx = nondet_u8();
  a64::LMHImm lmh;
  bool ok = a64::encode_lmh(size, idx, Out(lmh));
  // by-element forms: H (size=1) -> index = H:L:M (0..7), Rm 0..15; S (size=2) -> index = H:L (0..3), Rm 0..31
  bool ref = (size == 1 && idx <= 7) || (size == 2 && idx <= 3);
  V_ASSERT(ok == ref, "element index: accepted iff it fits H:L:M / H:L");
  if (ok) {
    uint32_t L = (lmh.lm >> 1) & 1, M = lmh.lm & 1;
    uint32_t dec = size == 1 ? (lmh.h << 2) | (L << 1) | M : (lmh.h << 1) | L;
    V_ASSERT(lmh.h <= 1 && lmh.lm <= 3, "element index: field ranges");
    V_ASSERT(dec == idx, "element index: H:L:M decodes to the index");
    if (size == 2) V_ASSERT(M == 0, "element index: M is free for Rm when size=S");
    V_ASSERT(lmh.max_rm_id == (size == 1 ? 15u : 31u), "element index: Rm limit");
    V_WITNESS("lmh-accepted");
  } else V_WITNESS("lmh-refused");
}
