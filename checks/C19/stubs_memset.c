/* Byte-loop model of memset for the solver only (see stubs_mem.c): CBMC's built-in model loses a memset of symbolic length into
 * the middle of an object (String::pad_end computes the length from the size field that overlays the embedded characters). */
#ifdef __CPROVER__
#include <stddef.h>
void* memset(void* s, int c, size_t n) { unsigned char* p = (unsigned char*)s; for (size_t i = 0; i < n; i++) p[i] = (unsigned char)c; return s; }
#else
typedef int verif_stubs_memset_not_empty;
#endif
