// STUB (listed in spec.py ASSUMPTIONS): stand-in for asmjit/support/arenatree.h inside the `poolm` unit of C19.
//
// The real ArenaTree keeps child links as uintptr_t with the colour in bit 0. For the solver every link followed is a
// pointer rebuilt from an integer: each store through it rewrites every candidate node, and a pool tree that receives a
// third node does not fit in 8 GB (measured, see spec.OUTSIDE history). The constant pool only needs an ordered map:
// insert(node, cmp), get(key, cmp), root(), left(), right(), reset(). This model keeps exactly that interface with typed
// child pointers and no balancing (as checks/C09/tree_model.h does for the JIT allocator). The comparison (ConstPool::Compare =
// memcmp over the node data), ConstPool::add, ConstPool_addGap, Tree::for_each and ConstPool::fill stay the real code.
// The real red-black tree is the subject of C18 (h_tree_*), and the `pool` unit of this check runs the pool on it with
// up to two nodes per tree. Without balancing the shapes reached are a superset of the balanced ones (any binary search
// tree over the inserted keys), so for_each/fill are decided for more shapes than the real tree produces.
#pragma once
#define ASMJIT_SUPPORT_ARENATREE_H_INCLUDED
#include <asmjit/support/support.h>

ASMJIT_BEGIN_NAMESPACE

template<typename NodeT>
class ArenaTreeNodeT {
public:
  ASMJIT_NONCOPYABLE(ArenaTreeNodeT)
  NodeT* _tree_nodes[2] {};   // [0] = left, [1] = right
  ASMJIT_INLINE_NODEBUG ArenaTreeNodeT() noexcept {}
  ASMJIT_INLINE_NODEBUG bool has_left() const noexcept { return _tree_nodes[0] != nullptr; }
  ASMJIT_INLINE_NODEBUG bool has_right() const noexcept { return _tree_nodes[1] != nullptr; }
  ASMJIT_INLINE_NODEBUG NodeT* left() const noexcept { return _tree_nodes[0]; }
  ASMJIT_INLINE_NODEBUG NodeT* right() const noexcept { return _tree_nodes[1]; }
};

namespace TreeModel {
// Links are read and written with constant indices in separate non-inlined calls: clang -O1 would otherwise turn
// `side ? n->right : n->left` into one load from a selected address, which the solver treats as untyped arithmetic.
template<typename NodeT> __attribute__((noinline)) static NodeT* get_left(const NodeT* n) noexcept { return n->_tree_nodes[0]; }
template<typename NodeT> __attribute__((noinline)) static NodeT* get_right(const NodeT* n) noexcept { return n->_tree_nodes[1]; }
template<typename NodeT> __attribute__((noinline)) static void set_left(NodeT* n, NodeT* c) noexcept { n->_tree_nodes[0] = c; }
template<typename NodeT> __attribute__((noinline)) static void set_right(NodeT* n, NodeT* c) noexcept { n->_tree_nodes[1] = c; }
template<typename NodeT> static inline NodeT* child(const NodeT* n, bool right_side) noexcept { if (right_side) return get_right(n); return get_left(n); }
template<typename NodeT> static inline void set_child(NodeT* n, bool right_side, NodeT* c) noexcept { if (right_side) set_right(n, c); else set_left(n, c); }
}

template<typename NodeT>
class ArenaTree {
public:
  ASMJIT_NONCOPYABLE(ArenaTree)
  using Node = NodeT;
  NodeT* _root {};

  ASMJIT_INLINE_NODEBUG ArenaTree() noexcept {}
  ASMJIT_INLINE_NODEBUG void reset() noexcept { _root = nullptr; }
  ASMJIT_INLINE_NODEBUG bool is_empty() const noexcept { return _root == nullptr; }
  ASMJIT_INLINE_NODEBUG NodeT* root() const noexcept { return _root; }

  // same descent as the real insert: to the right iff cmp(existing, new) < 0
  template<typename CompareT = Support::Compare<Support::SortOrder::kAscending>>
  void insert(NodeT* node, const CompareT& cmp = CompareT()) noexcept {
    ASMJIT_ASSERT(!node->has_left());
    ASMJIT_ASSERT(!node->has_right());
    NodeT* p = _root;
    if (!p) { _root = node; return; }
    for (;;) {
      bool side = cmp(*p, *node) < 0;
      NodeT* c = TreeModel::child(p, side);
      if (!c) { TreeModel::set_child(p, side, node); return; }
      p = c;
    }
  }

  // same descent as the real get: stop at cmp == 0, else to the right iff cmp(node, key) < 0
  template<typename KeyT, typename CompareT = Support::Compare<Support::SortOrder::kAscending>>
  [[nodiscard]]
  inline NodeT* get(const KeyT& key, const CompareT& cmp = CompareT()) const noexcept {
    NodeT* node = _root;
    while (node) {
      auto result = cmp(*node, key);
      if (result == 0) break;
      node = TreeModel::child(node, result < 0);
    }
    return node;
  }
};

ASMJIT_END_NAMESPACE
