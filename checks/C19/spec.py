# C19 — constant pool
UNITS = [
    # fill() clears the image with a memset of symbolic length: byte-loop memset for the solver (CBMC's built-in model loses such writes)
    Unit('pool', harness=['h_constpool.cpp'], repo_units=['asmjit/core/constpool.cpp'], extra_c=['stubs_memset.c']),
    # constpool.cpp compiled inside the harness against tree_model.h (typed child links instead of tagged integers)
    Unit('poolm', harness=['h_poolm.cpp'], repo_units=[], cbmc_defines=['VERIF_MEM_LOOPS']),
]
# loops of the harness helpers (bytes of the constants, the 56-byte image); everything else - the pool's tree walks, gap lists,
# the loops over the K constants - is bounded by the small global unwind
LONG = ','.join(['memset.0:200', 'memcmp.0:18', '_ZL10copy_bytesPhPKhj.0:18', '_ZL10keep_bytesR5EntryPKhm.0:34', '_ZL10part_equalRK5EntryS1_.0:34', '_ZL10same_bytesPKhS0_m.0:34',
                 '_ZN6asmjit5v1_219ConstPool5resetEv.0:9', '_ZNK6asmjit5v1_219ConstPool4fillEPv.0:9', '_ZNK6asmjit5v1_219ConstPool4fillEPv.1:9', '_ZNK6asmjit5v1_219ConstPool4fillEPv.2:9', '_ZNK6asmjit5v1_219ConstPool4fillEPv.3:9', '_ZNK6asmjit5v1_219ConstPool4fillEPv.4:9',
                 ] + ['_ZN6asmjit5v1_219ConstPool3addEPKvmNS0_3OutImEE.%d:8' % i for i in (1, 2, 3)] + ['_ZN6asmjit5v1_219ConstPool3addEPKvmNS0_3OutImEE.%d:6' % i for i in (22, 23, 24)] + [
                 '_ZL11check_imagePKhmPK5Entryj.0:58', '_ZL11check_imagePKhmPK5Entryj.1:58', '_ZL11fresh_bytesPh.0:18', '_ZL5paintPh.0:58'])
MLONG = ','.join(['verif_memset_n.0:60', 'verif_memcpy_n.0:20', 'memcmp.0:18', '_ZL10copy_bytesPhPKhj.0:18', '_ZL10keep_bytesR5EntryPKhm.0:34', '_ZL10part_equalRK5EntryS1_.0:34', '_ZL10same_bytesPKhS0_m.0:34',
                  '_ZL11check_imagePKhmPK5Entryj.0:58', '_ZL11check_imagePKhmPK5Entryj.1:58', '_ZL11fresh_bytesPh.0:18', '_ZL5paintPh.0:58',
                  # fill(): the loop over the 7 trees and the walk of one tree (at most 4 nodes here); all back edges get the same bound because a
                  # change to for_each renumbers them
                  ] + ['_ZN6asmjit5v1_219ConstPool3addEPKvmNS0_3OutImEE.%d:8' % i for i in (1, 2, 3)] +  # add(): walk over the gap size classes
                  ['_ZL7do_fillRKN6asmjit5v1_219ConstPoolEPh.%d:8' % i for i in range(10)])
# Tree::for_each keeps its walk stack in `Node* stack[62]` indexed by a symbolic depth: with CBMC's default per-element treatment of
# arrays up to 64 entries every push rewrites 62 symbols and symex runs out of memory on a 3-node tree; treated as one array it takes 1 s
Q, T = ('quick', 'thorough'), ('thorough',)
FS = ['--max-field-sensitivity-array-size', '16']
BM = 'model tree (typed links, no balancing); add sizes %s from the empty pool, 16 symbolic data bytes per add (a later add may repeat an earlier constant, share its first 4 bytes, or be its bytes 4..7 / 8..15), %s into a guarded 56-byte image'
B = 'add sizes %s from the empty pool, 16 symbolic data bytes per add (a later add may repeat the first constant, its upper half or its bytes 4..7), then (sequences 1,4,2 / 1,8,1 / 2,65 / 0,3 only) fill() into a guarded 56-byte image'
HARNESSES = [
    Harness('pool', 'h_pool_' + nm, unwind=5, unwindset=LONG + ''.join(',h_pool_%s.%d:%d' % (nm, i, 22 if i < 2 else 9) for i in range(24)), mem_gb=mem, timeout=to, tiers=tiers, bounds=B % nm.replace('_', ','))
    for nm, mem, to, tiers in (('1_4_2', 4, 900, ('quick', 'thorough')), ('4_4', 4, 900, ('quick', 'thorough')), ('2_65', 4, 600, ('quick', 'thorough')),
                               ('0_3', 4, 600, ('quick', 'thorough')), ('1_4_1', 4, 900, ('quick', 'thorough')))
] + [
    Harness('pool', 'h_pool_8_lookup', unwind=5, unwindset=LONG + ''.join(',h_pool_8_lookup.%d:%d' % (i, 22 if i < 2 else 9) for i in range(24)), mem_gb=7, timeout=1200,
            bounds='one add of 8 symbolic bytes, then the pool\'s own lookup (Tree::get) for both 4-byte halves and for 4 arbitrary bytes'),
] + [
    Harness('poolm', 'h_poolm_' + nm, unwind=5, unwindset=MLONG + ''.join(',h_poolm_%s.%d:9' % (nm, i) for i in range(12)), mem_gb=mem, timeout=1800, flags=FS, tiers=tiers, bounds=BM % (nm.replace('_', ','), fill))
    for nm, fill, mem, tiers in (('8_8_4', 'no fill()', 2, Q), ('1_4_1_1_1', 'then fill()', 8, Q), ('4_4_4_4', 'then fill()', 8, Q), ('4_8_4', 'then fill()', 6, T), ('1_8_1', 'then fill()', 6, Q))
]
EXPLANATION = 'bounded symbolic execution (CBMC) of the real ConstPool::add / fill compiled from /repo; offsets and the written image are compared with a list of the constants kept by the harness'
OUTSIDE = ['with the REAL red-black tree (unit pool): scenarios in which a tree of the pool receives a third node (out of memory at the 8 GB cap of one query: 8,4 / 4,8 / 8,8 / 1,8,1 / 4,4,4 / 4,8,4 / 16,8,4); those are decided in unit poolm on the typed-link tree model instead',
           'size sequences other than the ones listed per harness (sizes are constants per harness: with symbolic sizes the solver reaches no verdict); more than 5 adds',
           'constants of 32 and 64 bytes, and the sequence 16,8,4 (7 nodes in the tree of 4-byte constants: out of memory at 8 GB even on the model tree)',
           'pools that are not empty at the start']
ASSUMPTIONS = ['Arena::_alloc_oneshot is a harness stub handing out one small typed object per request (unit poolm: laid out like ConstPool::Node + data / ConstPool::Gap, from a table that belongs to the current add call); the arena is checked by C18; allocation never fails (D3 / C15)',
               'unit poolm: asmjit/support/arenatree.h is replaced by checks/C19/tree_model.h - typed child pointers, no balancing, the same insert/get descent rule and interface; ConstPool::add, ConstPool_addGap, ConstPool::Compare, Tree::for_each and ConstPool::fill are the real code. The real tree is exercised by C18 (h_tree_*) and, under the pool, by unit pool with up to two nodes per tree',
               'unit pool: memset is a byte loop for the solver; unit poolm: memcpy/memset with a non-constant length are byte loops (VERIF_MEM_LOOPS)',
               'unit poolm runs CBMC with --max-field-sensitivity-array-size 16 (for_each keeps a 62-entry stack indexed by a symbolic depth)']
