# C19 — constant pool
UNITS = [
    # fill() clears the image with a memset of symbolic length: byte-loop memset for the solver (CBMC's built-in model loses such writes)
    Unit('pool', harness=['h_constpool.cpp'], repo_units=['asmjit/core/constpool.cpp'], extra_c=['stubs_memset.c']),
]
# loops of the harness helpers (bytes of the constants, the 56-byte image); everything else - the pool's tree walks, gap lists,
# the loops over the K constants - is bounded by the small global unwind
LONG = ','.join(['memset.0:200', '_ZL10copy_bytesPhPKhj.0:18', '_ZL10keep_bytesR5EntryPKhm.0:34', '_ZL10part_equalRK5EntryS1_.0:34', '_ZL10same_bytesPKhS0_m.0:34',
                 '_ZL11check_imagePKhmPK5Entryj.0:58', '_ZL11check_imagePKhmPK5Entryj.1:58', '_ZL11fresh_bytesPh.0:18', '_ZL5paintPh.0:58'])
B = '%d add(data, size) calls from the empty pool, size chosen symbolically from %s, 16 symbolic data bytes per call (later calls may repeat the first constant, its upper half or its bytes 4..7), then one repeated add and fill()'
HARNESSES = [
    Harness('pool', 'h_pool_small2', unwind=9, unwindset=LONG, bounds=B % (2, '{0,1,2,3,4,65}'), mem_gb=6, timeout=900),
    Harness('pool', 'h_pool_small3', unwind=9, unwindset=LONG, bounds=B % (3, '{0,1,2,3,4,65}'), mem_gb=8, timeout=1800),
    Harness('pool', 'h_pool_wide2', unwind=9, unwindset=LONG, bounds=B % (2, '{1,2,4,8,16}'), mem_gb=8, timeout=1800),
    Harness('pool', 'h_pool_wide3', unwind=9, unwindset=LONG, tiers=('thorough',), bounds=B % (3, '{1,2,4,8,16}'), mem_gb=8, timeout=3600),
]
EXPLANATION = 'bounded symbolic execution (CBMC) of the real ConstPool::add / fill compiled from /repo; offsets and the written image are compared with a list of the constants kept by the harness'
OUTSIDE = ['constants of 32 and 64 bytes (a 64-byte constant registers 30 shared sub-constants: beyond the memory cap of one query)', 'more than 3 adds', 'pools that are not empty at the start']
ASSUMPTIONS = ['Arena::_alloc_oneshot is a harness stub handing out one 56-byte object per request (the arena is checked by C18); allocation never fails (D3 / C15)',
               'memset is a byte loop for the solver']
