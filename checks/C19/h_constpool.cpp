// C19 — ConstPool: K add(data, size) calls from the empty pool with symbolic data and a symbolic choice of sizes (valid and
// invalid), then fill(): offsets aligned, stable, deduplicated, non-overlapping (or shared inside a parent with equal bytes),
// bytes written = constants, gaps zero, size()/alignment() cover everything.
// The Arena is environment (C18 checks it): Arena::_alloc_oneshot is a harness stub handing out one small typed object per
// request, so that the solver resolves the pool's tagged node links per object.
// Compiled twice: unit `pool` links the real constpool.cpp (real red-black ArenaTree, at most two nodes per tree); unit
// `poolm` (h_poolm.cpp, C19_MODEL_UNIT) compiles constpool.cpp against tree_model.h and adds the scenarios with more nodes.
#if !defined(C19_MODEL_UNIT)
#include <asmjit/core.h>
#include <asmjit/core/constpool.h>
#endif
#include <new>
#include "verif.h"
using namespace asmjit;

#if defined(C19_MODEL_UNIT)
// Environment of the model unit: one typed object per request, laid out like what the pool puts there (tree node: two child
// links, flags, offset, data bytes; gap record: link, offset, size), taken from a small table that belongs to the current
// add() call (cur_add is set by the harness before each call and is a constant there). The solver then resolves every node
// access to a member of one of at most seven objects instead of a byte range of any object.
struct NodeSlot { void* link[2]; uint32_t flags; uint32_t offset; uint8_t data[32]; };   // = ConstPool::Node + data
struct GapSlot { void* next; size_t offset; size_t size; };                               // = ConstPool::Gap
static_assert(sizeof(ConstPool::Node) == 24 && sizeof(ConstPool::Gap) == sizeof(GapSlot), "slot layouts follow the pool's records");
static const unsigned kAdds = 6, kNodesPerAdd = 7, kGapsPerAdd = 4;   // add #5 = requests outside the scenario's adds (none expected)
#define C19_SLOTS(K) static NodeSlot n##K##_0, n##K##_1, n##K##_2, n##K##_3, n##K##_4, n##K##_5, n##K##_6; static GapSlot g##K##_0, g##K##_1, g##K##_2, g##K##_3; \
  static NodeSlot* ntab##K[kNodesPerAdd]; static GapSlot* gtab##K[kGapsPerAdd];
C19_SLOTS(0) C19_SLOTS(1) C19_SLOTS(2) C19_SLOTS(3) C19_SLOTS(4) C19_SLOTS(5)
static unsigned cur_add, nodes_used, gaps_used; static bool slot_overflow;
ASMJIT_BEGIN_NAMESPACE
void* Arena::_alloc_oneshot(size_t size) noexcept {
  if (size == sizeof(GapSlot)) {
    if (gaps_used >= kGapsPerAdd) { slot_overflow = true; return nullptr; }
    unsigned i = gaps_used++;
    switch (cur_add) { case 0: return gtab0[i]; case 1: return gtab1[i]; case 2: return gtab2[i]; case 3: return gtab3[i]; case 4: return gtab4[i]; default: return gtab5[i]; }
  }
  if (size > sizeof(NodeSlot) || nodes_used >= kNodesPerAdd) { slot_overflow = true; return nullptr; }
  unsigned i = nodes_used++;
  switch (cur_add) { case 0: return ntab0[i]; case 1: return ntab1[i]; case 2: return ntab2[i]; case 3: return ntab3[i]; case 4: return ntab4[i]; default: return ntab5[i]; }
}
ASMJIT_END_NAMESPACE
static inline void begin_add(unsigned k) { cur_add = k; nodes_used = 0; gaps_used = 0; }
alignas(8) static unsigned char arena_mem[sizeof(Arena)];
static inline Arena& env_arena() {
#if !defined(VERIF_CBMC)
  memset(arena_mem, 0, sizeof arena_mem);   // statics are zero at the start of a solver run; natively runs repeat in one process
#define C19_ZERO(K) memset(&n##K##_0, 0, sizeof(NodeSlot)); memset(&n##K##_1, 0, sizeof(NodeSlot)); memset(&n##K##_2, 0, sizeof(NodeSlot)); memset(&n##K##_3, 0, sizeof(NodeSlot)); \
  memset(&n##K##_4, 0, sizeof(NodeSlot)); memset(&n##K##_5, 0, sizeof(NodeSlot)); memset(&n##K##_6, 0, sizeof(NodeSlot));
  C19_ZERO(0) C19_ZERO(1) C19_ZERO(2) C19_ZERO(3) C19_ZERO(4) C19_ZERO(5)
#endif
  slot_overflow = false; begin_add(5);
#define C19_TAB(K) ntab##K[0] = &n##K##_0; ntab##K[1] = &n##K##_1; ntab##K[2] = &n##K##_2; ntab##K[3] = &n##K##_3; ntab##K[4] = &n##K##_4; ntab##K[5] = &n##K##_5; ntab##K[6] = &n##K##_6; \
  gtab##K[0] = &g##K##_0; gtab##K[1] = &g##K##_1; gtab##K[2] = &g##K##_2; gtab##K[3] = &g##K##_3;
  C19_TAB(0) C19_TAB(1) C19_TAB(2) C19_TAB(3) C19_TAB(4) C19_TAB(5)
  return *reinterpret_cast<Arena*>(arena_mem);   // _ptr == _end == null: every request goes to _alloc_oneshot
}
#else
struct Slot { uint64_t w[7]; };   // 56 bytes: tree node header (24) + up to 32 bytes of data; Gap records (24)
static Slot s0, s1, s2, s3, s4, s5, s6, s7, s8, s9, s10, s11, s12, s13, s14, s15, s16, s17, s18, s19;
static Slot* slot_table[20];
static unsigned slots_used; static bool slot_overflow;
ASMJIT_BEGIN_NAMESPACE
void* Arena::_alloc_oneshot(size_t size) noexcept {
  if (size > sizeof(Slot) || slots_used >= 20) { slot_overflow = true; return nullptr; }
  return slot_table[slots_used++];
}
ASMJIT_END_NAMESPACE
alignas(8) static unsigned char arena_mem[sizeof(Arena)];
static inline Arena& env_arena() {
  memset(arena_mem, 0, sizeof arena_mem); slots_used = 0; slot_overflow = false;
  Slot* t[20] = {&s0, &s1, &s2, &s3, &s4, &s5, &s6, &s7, &s8, &s9, &s10, &s11, &s12, &s13, &s14, &s15, &s16, &s17, &s18, &s19};
  for (unsigned i = 0; i < 20; i++) slot_table[i] = t[i];
  return *reinterpret_cast<Arena*>(arena_mem);   // _ptr == _end == null: every request goes to _alloc_oneshot
}
static inline void begin_add(unsigned) {}
#endif

#if defined(C19_MODEL_UNIT)
static const unsigned MAXK = 5, MAXB = 32;
#else
static const unsigned MAXK = 3, MAXB = 32;
#endif
struct Entry { bool ok; size_t size, off; uint8_t bytes[MAXB]; };

// long loops live in named functions so that their unwinding bound can be set apart from the pool's own (short) loops
__attribute__((noinline)) static void paint(uint8_t* image) { for (unsigned i = 0; i < 56; i++) image[i] = uint8_t(0xA5 ^ i); }
__attribute__((noinline)) static void check_image(const uint8_t* image, size_t total, const Entry* e, unsigned K) {
  for (unsigned i = 0; i < 56; i++) {
    bool covered = false; uint8_t want = 0;
    for (unsigned k = 0; k < MAXK; k++) if (k < K && e[k].ok && i >= e[k].off && i < e[k].off + e[k].size) { covered = true; want = e[k].bytes[(i - e[k].off) % MAXB]; }
    if (i >= total) V_ASSERT(image[i] == uint8_t(0xA5 ^ i), "constpool: fill writes nothing beyond size()");
    else if (covered) V_ASSERT(image[i] == want, "constpool: the bytes at a returned offset are the constant");
    else V_ASSERT(image[i] == 0, "constpool: bytes that belong to no constant are zero");
  }
}
__attribute__((noinline)) static bool same_bytes(const uint8_t* a, const uint8_t* b, size_t n) { bool eq = true; for (unsigned i = 0; i < MAXB; i++) if (i < n && a[i] != b[i]) eq = false; return eq; }
__attribute__((noinline)) static void copy_bytes(uint8_t* d, const uint8_t* s, unsigned n) { for (unsigned i = 0; i < 16; i++) if (i < n) d[i] = s[i]; }
__attribute__((noinline)) static void fresh_bytes(uint8_t* d) { for (unsigned i = 0; i < 16; i++) d[i] = nondet_u8(); }
__attribute__((noinline)) static void keep_bytes(Entry& e, const uint8_t* data, size_t size) { for (unsigned i = 0; i < MAXB; i++) e.bytes[i] = i < size && i < 16 ? data[i] : 0; }
__attribute__((noinline)) static bool part_equal(const Entry& big, const Entry& small) {
  bool eq = true; for (unsigned x = 0; x < MAXB; x++) if (x < small.size && big.bytes[(small.off - big.off + x) % MAXB] != small.bytes[x]) eq = false; return eq;
}

// one add with a size that is a compile-time constant at the call site
template<size_t SIZE>
static inline void add_sized(ConstPool& pool, Entry& e, const uint8_t* data) {
  size_t before_size = pool.size(), before_align = pool.alignment();
  size_t off = ~size_t(0);
  Error err = pool.add(data, SIZE, Out(off));
  const bool valid = SIZE == 1 || SIZE == 2 || SIZE == 4 || SIZE == 8 || SIZE == 16 || SIZE == 32 || SIZE == 64;
  e.size = SIZE;
  if (!valid) {
    V_ASSERT(err == Error::kInvalidArgument, "constpool: a size that is not a power of two in 1..64 is refused");
    V_ASSERT(pool.size() == before_size && pool.alignment() == before_align && off == ~size_t(0), "constpool: a refused add changes nothing");
    e.ok = false; e.off = 0;
  } else {
    V_ASSERT(err == Error::kOk, "constpool: a valid add succeeds");
    V_ASSERT(off % (SIZE ? SIZE : 1) == 0, "constpool: the offset is aligned to the size of the constant");
    V_ASSERT(off + SIZE <= pool.size(), "constpool: the constant lies inside the pool size");
    V_ASSERT(pool.alignment() >= SIZE && pool.alignment() >= before_align && pool.size() >= before_size, "constpool: alignment and size only grow and cover the constant");
    e.ok = true; e.off = off;
    keep_bytes(e, data, SIZE);
  }
  verif_observe(uint32_t(err)); verif_observe(off);
}

#if !defined(C19_MODEL_UNIT)
// A scenario = a fixed sequence of sizes S1, S2, S3 (NONE = no third add) with symbolic data. The sizes are constants because
// every add into a tree that already holds nodes is expensive for the solver (tagged child links); with symbolic sizes the
// trees touched are symbolic too and no verdict is reached. The data of a later add is fresh, or a copy of the first
// constant, its upper half or its bytes 4..7 - so equal constants and sub-constants of earlier ones are inside the bound.
static const size_t NONE = 999;
template<size_t S> struct IsValid { static const bool v = S == 1 || S == 2 || S == 4 || S == 8 || S == 16 || S == 32 || S == 64; };

template<size_t S1, size_t S2, size_t S3, bool FILL>
static void pool_scenario() {
  const unsigned K = S3 == NONE ? 2 : 3;
  const bool v1 = IsValid<S1>::v, v2 = IsValid<S2>::v, v3 = S3 != NONE && IsValid<S3>::v;
  const bool can_dedup = (v1 && S1 == S2) || (v3 && (S3 == S1 || S3 == S2));
  const bool can_share = (S1 == 16 && (S2 == 8 || S3 == 8)) || ((S1 == 8 || S1 == 16) && (S2 == 4 || S3 == 4));
  const bool can_distinct = (v1 && v2) || (v3 && (v1 || v2));
  Arena& arena = env_arena();
  alignas(8) static unsigned char pool_mem[sizeof(ConstPool)];
  ConstPool& pool = *new (pool_mem) ConstPool(arena);
  V_ASSERT(pool.is_empty() && pool.size() == 0 && pool.alignment() == 0, "constpool: starts empty");
  Entry e[MAXK]; uint8_t data[MAXK][16];
  e[2].ok = false; e[2].size = 0; e[2].off = 0;
  for (unsigned k = 0; k < K; k++) {
    fresh_bytes(data[k]);
    if (k > 0) {
      unsigned src = nondet_u8() % 4;   // 0: fresh data; 1: copy of add 0; 2: upper half (8..15 -> 0..7) of add 0; 3: bytes 4..7 of add 0
      if (src == 1) copy_bytes(data[k], data[0], 16);
      if (src == 2) copy_bytes(data[k], data[0] + 8, 8);
      if (src == 3) copy_bytes(data[k], data[0] + 4, 4);
    }
    if (k == 0) add_sized<S1>(pool, e[0], data[0]);
    else if (k == 1) add_sized<S2>(pool, e[1], data[1]);
    else add_sized<S3 == NONE ? 1 : S3>(pool, e[2], data[2]);
    V_ASSERT(!slot_overflow, "harness: node storage suffices");
  }
  // pairwise: dedup / disjointness / sharing
  bool saw_dedup = false, saw_shared = false, saw_distinct = false;
  for (unsigned i = 0; i < MAXK; i++) for (unsigned j = 0; j < i; j++) if (i < K && e[i].ok && e[j].ok) {
    const Entry& a = e[j]; const Entry& b = e[i];   // a added before b
    if (a.size == b.size && same_bytes(a.bytes, b.bytes, a.size)) {
      V_ASSERT(a.off == b.off, "constpool: equal constants of the same size share one offset");
      saw_dedup = true;
    } else {
      bool disjoint = a.off + a.size <= b.off || b.off + b.size <= a.off;
      if (!disjoint) {
        // sharing: the smaller one lies inside the larger one and its bytes equal the bytes there
        const Entry& big = a.size >= b.size ? a : b; const Entry& small = a.size >= b.size ? b : a;
        bool inside = small.off >= big.off && small.off + small.size <= big.off + big.size && big.size > small.size;
        bool eq = inside && part_equal(big, small);
        V_ASSERT(inside && eq, "constpool: overlapping storage is a smaller constant inside a larger one with equal bytes");
        saw_shared = true;
      } else saw_distinct = true;
    }
  }
  if (can_dedup && saw_dedup) V_WITNESS("constpool-dedup");
  if (can_share && saw_shared) V_WITNESS("constpool-shared");
  if (can_distinct && saw_distinct) V_WITNESS("constpool-distinct-disjoint");
  if (!can_share) V_ASSERT(!saw_shared, "constpool: storage is shared only between a constant and a sub-constant of at least 4 bytes");
  // written image (FILL: only in the scenarios whose trees hold few nodes - walking a tree costs the solver as much as building it)
  const size_t total = pool.size();
  V_ASSERT(total <= 48, "constpool: three constants of at most 16 bytes need at most 48 bytes");
  size_t max_size = 0, max_end = 0;
  for (unsigned k = 0; k < MAXK; k++) if (k < K && e[k].ok) { if (e[k].size > max_size) max_size = e[k].size; if (e[k].off + e[k].size > max_end) max_end = e[k].off + e[k].size; }
  V_ASSERT(pool.alignment() == max_size, "constpool: alignment is the largest constant size");
  V_ASSERT(total >= max_end, "constpool: size() covers every constant");
  verif_observe(total);
  if (FILL) {
    uint8_t image[48 + 8]; paint(image);
    pool.fill(image);
    check_image(image, total, e, K);
    verif_observe(image[0]); verif_observe(image[1]); verif_observe(image[4]); verif_observe(image[8]);
    if (v1 || v2 || v3) V_WITNESS("constpool-filled");
  }
  if (v1 && v2 && S1 < S2 && e[0].off + e[0].size < e[1].off) V_WITNESS("constpool-gap");
  if (!v1 || !v2) V_WITNESS("constpool-refused");
}
#define POOL_H(NAME, A, B, C, FILL) HARNESS h_pool_##NAME() { pool_scenario<A, B, C, FILL>(); }
// Dropped after measurement (each exhausts the 8 GB cap of one query, see spec.OUTSIDE): 8,4 / 4,8 / 8,8 / 1,8,1 / 4,4,4 / 4,8,4 / 16,8,4.
POOL_H(1_4_2, 1, 4, 2, true)          // alignment gap created by the second add, reused by the third
POOL_H(4_4, 4, 4, NONE, false)         // same tree: equal -> one offset, different -> two
POOL_H(2_65, 2, 65, NONE, true)       // invalid sizes
POOL_H(0_3, 0, 3, NONE, true)
POOL_H(1_4_1, 1, 4, 1, false)         // stability: the third add may repeat the first constant after the pool has grown

// Shared sub-constants without a second add (an add into a tree that already holds two nodes exhausts the memory cap):
// after add(8 bytes) the lookup the pool itself uses finds both 4-byte halves, registered as shared nodes inside the parent.
HARNESS h_pool_8_lookup() {
  Arena& arena = env_arena();
  alignas(8) static unsigned char pool_mem[sizeof(ConstPool)];
  ConstPool& pool = *new (pool_mem) ConstPool(arena);
  Entry e; uint8_t data[16]; fresh_bytes(data);
  add_sized<8>(pool, e, data);
  V_ASSERT(e.off == 0 && pool.size() == 8 && pool.alignment() == 8 && pool.min_item_size() == 8, "constpool: first 8-byte constant sits at offset 0");
  V_ASSERT(slots_used == (same_bytes(data, data + 4, 4) ? 2u : 3u), "constpool: one parent node plus one shared node per distinct half");
  for (unsigned h = 0; h < 2; h++) {
    ConstPool::Node* n = pool._tree[ConstPool::kIndex4].get(data + 4 * h);
    V_ASSERT(n != nullptr && n->_shared == 1, "constpool: each 4-byte half of an 8-byte constant is registered as a shared node");
    bool both_equal = same_bytes(data, data + 4, 4);
    V_ASSERT(n->_offset == (both_equal ? 0u : 4u * h), "constpool: a shared node points into its parent at the position of its bytes");
    V_ASSERT(same_bytes(static_cast<const uint8_t*>(n->data()), data + 4 * h, 4), "constpool: a shared node carries the bytes of the parent at its offset");
  }
  uint8_t other[4]; for (int i = 0; i < 4; i++) other[i] = nondet_u8();
  ConstPool::Node* o = pool._tree[ConstPool::kIndex4].get(other);
  V_ASSERT((o != nullptr) == (same_bytes(other, data, 4) || same_bytes(other, data + 4, 4)), "constpool: nothing but the two halves is found among the 4-byte constants");
  V_ASSERT(pool._tree[ConstPool::kIndex8].get(data) != nullptr && pool._tree[ConstPool::kIndex8].get(data)->_shared == 0 && pool._tree[ConstPool::kIndex2].is_empty(), "constpool: the parent is a non-shared 8-byte node and nothing below 4 bytes is registered");
  V_WITNESS("constpool-halves-shared");
}
#endif  // !C19_MODEL_UNIT
