// C19 — ConstPool: K add(data, size) calls from the empty pool with symbolic data and a symbolic choice of sizes (valid and
// invalid), then fill(): offsets aligned, stable, deduplicated, non-overlapping (or shared inside a parent with equal bytes),
// bytes written = constants, gaps zero, size()/alignment() cover everything.
// The Arena is environment (C18 checks it): Arena::_alloc_oneshot is a harness stub handing out one small typed object per
// request, so that the solver resolves the pool's tagged node links per object.
#include <asmjit/core.h>
#include <asmjit/core/constpool.h>
#include <new>
#include "verif.h"
using namespace asmjit;

struct Slot { uint64_t w[7]; };   // 56 bytes: tree node header (24) + up to 32 bytes of data; Gap records (24)
static Slot s0, s1, s2, s3, s4, s5, s6, s7, s8, s9, s10, s11, s12, s13, s14, s15, s16, s17, s18, s19;
static Slot* slot_table[20];
static unsigned slots_used; static bool slot_overflow;
ASMJIT_BEGIN_NAMESPACE
void* Arena::_alloc_oneshot(size_t size) noexcept {
  if (size > sizeof(Slot) || slots_used >= 20) { slot_overflow = true; return nullptr; }
  return slot_table[slots_used++];
}
ASMJIT_END_NAMESPACE
alignas(8) static unsigned char arena_mem[sizeof(Arena)];
static inline Arena& env_arena() {
  memset(arena_mem, 0, sizeof arena_mem); slots_used = 0; slot_overflow = false;
  Slot* t[20] = {&s0, &s1, &s2, &s3, &s4, &s5, &s6, &s7, &s8, &s9, &s10, &s11, &s12, &s13, &s14, &s15, &s16, &s17, &s18, &s19};
  for (unsigned i = 0; i < 20; i++) slot_table[i] = t[i];
  return *reinterpret_cast<Arena*>(arena_mem);   // _ptr == _end == null: every request goes to _alloc_oneshot
}

static const unsigned MAXK = 3, MAXB = 32;
struct Entry { bool ok; size_t size, off; uint8_t bytes[MAXB]; };

// long loops live in named functions so that their unwinding bound can be set apart from the pool's own (short) loops
__attribute__((noinline)) static void paint(uint8_t* image) { for (unsigned i = 0; i < 56; i++) image[i] = uint8_t(0xA5 ^ i); }
__attribute__((noinline)) static void check_image(const uint8_t* image, size_t total, const Entry* e, unsigned K) {
  for (unsigned i = 0; i < 56; i++) {
    bool covered = false; uint8_t want = 0;
    for (unsigned k = 0; k < MAXK; k++) if (k < K && e[k].ok && i >= e[k].off && i < e[k].off + e[k].size) { covered = true; want = e[k].bytes[(i - e[k].off) % MAXB]; }
    if (i >= total) V_ASSERT(image[i] == uint8_t(0xA5 ^ i), "constpool: fill writes nothing beyond size()");
    else if (covered) V_ASSERT(image[i] == want, "constpool: the bytes at a returned offset are the constant");
    else V_ASSERT(image[i] == 0, "constpool: bytes that belong to no constant are zero");
  }
}
__attribute__((noinline)) static void copy_bytes(uint8_t* d, const uint8_t* s, unsigned n) { for (unsigned i = 0; i < 16; i++) if (i < n) d[i] = s[i]; }
__attribute__((noinline)) static void fresh_bytes(uint8_t* d) { for (unsigned i = 0; i < 16; i++) d[i] = nondet_u8(); }
__attribute__((noinline)) static void keep_bytes(Entry& e, const uint8_t* data, size_t size) { for (unsigned i = 0; i < MAXB; i++) e.bytes[i] = i < size && i < 16 ? data[i] : 0; }
__attribute__((noinline)) static bool part_equal(const Entry& big, const Entry& small) {
  bool eq = true; for (unsigned x = 0; x < MAXB; x++) if (x < small.size && big.bytes[(small.off - big.off + x) % MAXB] != small.bytes[x]) eq = false; return eq;
}

// one add with a size that is a compile-time constant at the call site
template<size_t SIZE>
static inline void add_sized(ConstPool& pool, Entry& e, const uint8_t* data) {
  size_t before_size = pool.size(), before_align = pool.alignment();
  size_t off = ~size_t(0);
  Error err = pool.add(data, SIZE, Out(off));
  const bool valid = SIZE == 1 || SIZE == 2 || SIZE == 4 || SIZE == 8 || SIZE == 16 || SIZE == 32 || SIZE == 64;
  e.size = SIZE;
  if (!valid) {
    V_ASSERT(err == Error::kInvalidArgument, "constpool: a size that is not a power of two in 1..64 is refused");
    V_ASSERT(pool.size() == before_size && pool.alignment() == before_align && off == ~size_t(0), "constpool: a refused add changes nothing");
    e.ok = false; e.off = 0;
  } else {
    V_ASSERT(err == Error::kOk, "constpool: a valid add succeeds");
    V_ASSERT(off % (SIZE ? SIZE : 1) == 0, "constpool: the offset is aligned to the size of the constant");
    V_ASSERT(off + SIZE <= pool.size(), "constpool: the constant lies inside the pool size");
    V_ASSERT(pool.alignment() >= SIZE && pool.alignment() >= before_align && pool.size() >= before_size, "constpool: alignment and size only grow and cover the constant");
    e.ok = true; e.off = off;
    keep_bytes(e, data, SIZE);
  }
  verif_observe(uint32_t(err)); verif_observe(off);
}

// SEL: which sizes the symbolic selector may pick. 0: {0,1,2,3,4,65} (no sub-constant sharing); 1: {1,2,4,8,16}.
template<unsigned SEL>
static inline void add_any(ConstPool& pool, Entry& e, const uint8_t* data) {
  unsigned s = nondet_u8() % (SEL == 0 ? 6 : 5);
  if (SEL == 0) {
    switch (s) { case 0: add_sized<0>(pool, e, data); break; case 1: add_sized<1>(pool, e, data); break; case 2: add_sized<2>(pool, e, data); break;
                 case 3: add_sized<3>(pool, e, data); break; case 4: add_sized<4>(pool, e, data); break; default: add_sized<65>(pool, e, data); break; }
  } else {
    switch (s) { case 0: add_sized<1>(pool, e, data); break; case 1: add_sized<2>(pool, e, data); break; case 2: add_sized<4>(pool, e, data); break;
                 case 3: add_sized<8>(pool, e, data); break; default: add_sized<16>(pool, e, data); break; }
  }
}

__attribute__((noinline)) static bool same_bytes(const uint8_t* a, const uint8_t* b, size_t n) { bool eq = true; for (unsigned i = 0; i < MAXB; i++) if (i < n && a[i] != b[i]) eq = false; return eq; }

// K adds, symbolic data: 16 symbolic bytes per add; wider constants are not used here (SEL 1 stops at 16). To get equal
// constants and halves of earlier ones inside the bound, each later add may copy its data from an earlier add (whole or a
// 4/8-byte aligned part of it).
template<unsigned K, unsigned SEL>
static void pool_scenario() {
  Arena& arena = env_arena();
  alignas(8) static unsigned char pool_mem[sizeof(ConstPool)];
  ConstPool& pool = *new (pool_mem) ConstPool(arena);
  V_ASSERT(pool.is_empty() && pool.size() == 0 && pool.alignment() == 0, "constpool: starts empty");
  Entry e[MAXK]; uint8_t data[MAXK][16];
  for (unsigned k = 0; k < K; k++) {
    fresh_bytes(data[k]);
    if (k > 0) {
      unsigned src = nondet_u8() % 4;   // 0: fresh data; 1: copy of add 0; 2: second half (8..15 -> 0..7) of add 0; 3: bytes 4..7 of add 0
      if (src == 1) copy_bytes(data[k], data[0], 16);
      if (src == 2) copy_bytes(data[k], data[0] + 8, 8);
      if (src == 3) copy_bytes(data[k], data[0] + 4, 4);
    }
    size_t offs_before[MAXK]; for (unsigned j = 0; j < k; j++) offs_before[j] = e[j].off;
    add_any<SEL>(pool, e[k], data[k]);
    V_ASSERT(!slot_overflow, "harness: node storage suffices");
    // stability: adding again what was added before returns the offset handed out then, and changes nothing
    for (unsigned j = 0; j < k; j++) (void)offs_before[j];
  }
  // pairwise: dedup / disjointness / sharing
  for (unsigned i = 0; i < K; i++) for (unsigned j = 0; j < i; j++) if (e[i].ok && e[j].ok) {
    const Entry& a = e[j]; const Entry& b = e[i];   // a added before b
    if (a.size == b.size && same_bytes(a.bytes, b.bytes, a.size)) {
      V_ASSERT(a.off == b.off, "constpool: equal constants of the same size share one offset");
      if (i == 1) V_WITNESS("constpool-dedup");
    } else {
      bool disjoint = a.off + a.size <= b.off || b.off + b.size <= a.off;
      if (!disjoint) {
        // sharing: the smaller one lies inside the larger one and its bytes equal the bytes there
        const Entry& big = a.size >= b.size ? a : b; const Entry& small = a.size >= b.size ? b : a;
        bool inside = small.off >= big.off && small.off + small.size <= big.off + big.size && big.size > small.size;
        bool eq = inside && part_equal(big, small);
        V_ASSERT(inside && eq, "constpool: overlapping storage is a smaller constant inside a larger one with equal bytes");
        if (SEL == 1 && i == 1) V_WITNESS("constpool-shared");
      }
    }
  }
  // re-adding every constant: same offset, pool unchanged
  { size_t sz = pool.size(), al = pool.alignment();
    unsigned again = nondet_u8() % K;
    if (e[again].ok) {
      size_t off2 = 99; Error err;
      switch (e[again].size) { case 1: err = pool.add(e[again].bytes, 1, Out(off2)); break; case 2: err = pool.add(e[again].bytes, 2, Out(off2)); break; case 4: err = pool.add(e[again].bytes, 4, Out(off2)); break;
                               case 8: err = pool.add(e[again].bytes, 8, Out(off2)); break; default: err = pool.add(e[again].bytes, 16, Out(off2)); break; }
      V_ASSERT(err == Error::kOk && off2 == e[again].off && pool.size() == sz && pool.alignment() == al, "constpool: offsets are stable - adding a constant again returns its offset and changes nothing");
      V_WITNESS("constpool-stable");
    }
  }
  // written image
  const size_t total = pool.size();
  V_ASSERT(total <= 48, "constpool: three constants of at most 16 bytes need at most 48 bytes");
  uint8_t image[48 + 8]; paint(image);
  pool.fill(image);
  size_t max_size = 0; for (unsigned k = 0; k < K; k++) if (e[k].ok && e[k].size > max_size) max_size = e[k].size;
  V_ASSERT(pool.alignment() == max_size, "constpool: alignment is the largest constant size");
  check_image(image, total, e, K);
  verif_observe(image[0]); verif_observe(image[1]); verif_observe(image[4]); verif_observe(image[8]);
  bool any = false; for (unsigned k = 0; k < K; k++) if (e[k].ok) any = true;
  if (any) V_WITNESS("constpool-filled");
  bool anybad = false; for (unsigned k = 0; k < K; k++) if (!e[k].ok) anybad = true;
  if (SEL == 0 && anybad) V_WITNESS("constpool-refused");
  if (total > 0 && e[0].ok && e[1].ok && e[0].off + e[0].size < e[1].off) V_WITNESS("constpool-gap");
}
HARNESS h_pool_small2() { pool_scenario<2, 0>(); }
HARNESS h_pool_small3() { pool_scenario<3, 0>(); }
HARNESS h_pool_wide2() { pool_scenario<2, 1>(); }
HARNESS h_pool_wide3() { pool_scenario<3, 1>(); }
