// C19 — ConstPool scenarios with more than two nodes per tree: the pool's real code (add, gap lists, shared sub-constants,
// Tree::for_each, fill) compiled against a typed-link model of ArenaTree (tree_model.h, see the comment there).
#include <asmjit/core/api-build_p.h>
#include "tree_model.h"
#include <asmjit/core.h>
#include <asmjit/core/constpool.cpp>   // the unit under test, compiled here so that it sees the model header
#define C19_MODEL_UNIT 1
#include "h_constpool.cpp"             // environment stub, Entry, image and byte helpers, add_sized<SIZE>
#include <utility>

// ---- compile-time facts about a size sequence (which witnesses a scenario can reach)
template<size_t... S> struct Seq {
  static constexpr unsigned n = sizeof...(S);
  static constexpr size_t v[sizeof...(S)] = {S...};
  static constexpr bool valid(size_t s) { return s == 1 || s == 2 || s == 4 || s == 8 || s == 16 || s == 32 || s == 64; }
  static constexpr bool can_dedup() { for (unsigned i = 0; i < n; i++) for (unsigned j = 0; j < i; j++) if (valid(v[i]) && v[i] == v[j]) return true; return false; }
  // a later, smaller (>= 4 bytes) constant can be found inside an earlier wider one
  static constexpr bool can_share() { for (unsigned i = 0; i < n; i++) for (unsigned j = 0; j < i; j++) if (valid(v[i]) && valid(v[j]) && v[j] >= 8 && v[i] >= 4 && v[i] < v[j]) return true; return false; }
  static constexpr bool can_distinct() { unsigned c = 0; for (unsigned i = 0; i < n; i++) if (valid(v[i])) c++; return c >= 2; }
};

// Data of add k: fresh symbolic bytes, or (symbolic choice) related to an earlier add j: the same 16 bytes; the same first four
// bytes and fresh others (two wide constants sharing one half); bytes 4..7 of j (the upper half of an 8-byte constant, or the
// second quarter of a 16-byte one); bytes 8..15 of j (upper half of a 16-byte constant).
__attribute__((noinline)) static void relate(uint8_t (*data)[16], unsigned k) {
  fresh_bytes(data[k]);
  if (k == 0) return;
  unsigned rel = nondet_u8() % 5; unsigned j = nondet_u8() % MAXK; if (j >= k) j = 0;
  if (rel == 1) copy_bytes(data[k], data[j], 16);
  if (rel == 2) copy_bytes(data[k], data[j], 4);
  if (rel == 3) copy_bytes(data[k], data[j] + 4, 4);
  if (rel == 4) copy_bytes(data[k], data[j] + 8, 8);
}
template<size_t SIZE>
static inline void step(ConstPool& pool, Entry* e, uint8_t (*data)[16], unsigned k) {
  relate(data, k);
  begin_add(k);
  add_sized<SIZE>(pool, e[k], data[k]);
  begin_add(5);
  V_ASSERT(!slot_overflow, "harness: node storage suffices");
}
template<size_t... S, unsigned... I>
static inline void add_all(ConstPool& pool, Entry* e, uint8_t (*data)[16], std::integer_sequence<unsigned, I...>) { (step<S>(pool, e, data, I), ...); }

__attribute__((noinline)) static void check_pairs(const Entry* e, unsigned K, bool& saw_dedup, bool& saw_shared, bool& saw_distinct) {
  for (unsigned i = 0; i < MAXK; i++) for (unsigned j = 0; j < MAXK; j++) if (j < i && i < K && e[i].ok && e[j].ok) {
    const Entry& a = e[j]; const Entry& b = e[i];   // a added before b
    if (a.size == b.size && same_bytes(a.bytes, b.bytes, a.size)) {
      V_ASSERT(a.off == b.off, "constpool: equal constants of the same size share one offset");
      saw_dedup = true;
    } else {
      bool disjoint = a.off + a.size <= b.off || b.off + b.size <= a.off;
      if (!disjoint) {
        const Entry& big = a.size >= b.size ? a : b; const Entry& small = a.size >= b.size ? b : a;
        bool inside = small.off >= big.off && small.off + small.size <= big.off + big.size && big.size > small.size;
        bool eq = inside && part_equal(big, small);
        V_ASSERT(inside && eq, "constpool: overlapping storage is a smaller constant inside a larger one with equal bytes");
        V_ASSERT(small.size >= 4, "constpool: storage is shared only with sub-constants of at least 4 bytes");
        saw_shared = true;
      } else saw_distinct = true;
    }
  }
}

__attribute__((noinline)) static void do_fill(const ConstPool& pool, uint8_t* image) { pool.fill(image); }   // named, so that the tree walk's loops get their own bound

template<bool FILL, size_t... S>
static void pool_seq() {
  typedef Seq<S...> Q; const unsigned K = Q::n;
  Arena& arena = env_arena();
  ConstPool pool(arena);   // a typed local object: the tree roots and gap list heads stay typed pointers for the solver
  V_ASSERT(pool.is_empty() && pool.size() == 0 && pool.alignment() == 0, "constpool: starts empty");
  Entry e[MAXK]; uint8_t data[MAXK][16];
  for (unsigned k = 0; k < MAXK; k++) { e[k].ok = false; e[k].size = 0; e[k].off = 0; }
  add_all<S...>(pool, e, data, std::make_integer_sequence<unsigned, sizeof...(S)>());
  bool saw_dedup = false, saw_shared = false, saw_distinct = false;
  check_pairs(e, K, saw_dedup, saw_shared, saw_distinct);
  if (Q::can_dedup() && saw_dedup) V_WITNESS("constpool-dedup");
  if (Q::can_share() && saw_shared) V_WITNESS("constpool-shared");
  if (Q::can_distinct() && saw_distinct) V_WITNESS("constpool-distinct-disjoint");
  if (!Q::can_share()) V_ASSERT(!saw_shared, "constpool: storage is shared only between a wider constant and a later sub-constant");
  const size_t total = pool.size();
  V_ASSERT(total <= 48, "constpool: the constants of this scenario need at most 48 bytes");
  size_t max_size = 0, max_end = 0;
  for (unsigned k = 0; k < MAXK; k++) if (k < K && e[k].ok) { if (e[k].size > max_size) max_size = e[k].size; if (e[k].off + e[k].size > max_end) max_end = e[k].off + e[k].size; }
  V_ASSERT(pool.alignment() == max_size, "constpool: alignment is the largest constant size");
  V_ASSERT(total >= max_end, "constpool: size() covers every constant");
  verif_observe(total);
  if (FILL) {
    uint8_t image[48 + 8]; paint(image);
    do_fill(pool, image);
    check_image(image, total, e, K);
    verif_observe(image[0]); verif_observe(image[1]); verif_observe(image[4]); verif_observe(image[8]);
    V_WITNESS("constpool-filled");
  }
}
// m1-type: two 8-byte constants that may share a half, then a 4-byte constant that may be a half of either
HARNESS h_poolm_8_8_4() { pool_seq<false, 8, 8, 4>(); }
// m2-type: 1-byte constants around a 4-byte one: gaps of 1 and 2 bytes, the 1-byte gap is reused, later ones are appended
HARNESS h_poolm_1_4_1_1_1() { pool_seq<true, 1, 4, 1, 1, 1>(); }
// m3-type: four constants in one tree (any insertion order / shape), written out by fill()
HARNESS h_poolm_4_4_4_4() { pool_seq<true, 4, 4, 4, 4>(); }
// previously out of reach with the real tree (16,8,4 - up to 7 nodes in the tree of 4-byte constants - still is: out of memory at 8 GB)
HARNESS h_poolm_4_8_4() { pool_seq<true, 4, 8, 4>(); }
HARNESS h_poolm_1_8_1() { pool_seq<true, 1, 8, 1>(); }
