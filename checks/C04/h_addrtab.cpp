// C04 — 64-bit jmp/call to an absolute target (RelocType::kX64AddressEntry): rel32 when reachable, otherwise the instruction
// is rewritten to FF /2 | FF /4 [rip+disp32] through an 8-byte slot of the .addrtab section. The oracle is what the CPU
// executes from the *installed image* (copy_flattened_data after flatten + relocate_to_base): the slot bytes in the image
// must be the target. Symbolic: base address and targets (all 2^64), one or two call/jmp sites, REX/opcode bytes,
// whether a user section is ordered after .addrtab (address table last / not last in section order).
#include "ch_env.h"
using namespace asmjit;
using namespace chenv;

static AddressTableEntry ent0(0), ent1(0);
static uint8_t img[8 + 48 + 8];

// mode 0: main harness (D5 region excluded while the finding is open); mode 1: confined to the D5 region.
// N_REL (number of call/jmp sites) is a template parameter so that the relocation table is concrete for the symbolic executor.
// IMAGE: run the real copy_flattened_data into a guarded 48-byte destination and read everything back from that image
// (dear: symbolic-length copies); otherwise use what C10 proves about the copy (image byte at section offset + k is byte k of the
// section buffer, for k < buffer size): the slot must lie inside the buffer of .addrtab and hold the target.
// IMG_CASE (image variant only): 0 none; otherwise 1 + 2*table_last + far, i.e. the layout case is fixed per instantiation so that
// every offset and size the copy uses can be re-stated as a constant (a copy with symbolic lengths does not fit the memory cap).
template<uint32_t N_REL, bool IMAGE, uint32_t IMG_CASE = 0>
static void addrtab_check_n(int mode) {
  CodeHolder* c = make_holder(Arch::kX64, 3);
  bool table_last = nondet_bool();
  if (mode == 0) {
#if KF_D5
    V_ASSUME(table_last);  // known finding D5: address table section is not last in order
#endif
  }
  else V_ASSUME(!table_last);
  constexpr uint32_t n_rel = N_REL;
  bool bad_opcode = n_rel == 1 && !IMAGE && nondet_bool();  // a site that is not jmp/call rel32 (single-site case only)
  uint64_t p1 = nondet_u64(), p2 = nondet_u64();
  uint32_t n_ent = (n_rel == 2 && p2 != p1) ? 2 : 1;

  // sections: 0 = .text (16 bytes), 1 = .addrtab (alignment 8, order INT_MAX, one 8-byte slot reserved per distinct target, as
  // add_address_to_address_table leaves it), 2 = user data section (8 bytes, alignment 16), ordered before or after .addrtab
  Section* text = sec(0); Section* tab = sec(1); Section* user = sec(2);
  text->_buffer._size = 16;
  tab->_alignment = 8; tab->_order = INT32_MAX; tab->_virtual_size = 8 * n_ent; tab->_buffer._data = nullptr; tab->_buffer._capacity = 0;
  user->_alignment = 16; user->_order = table_last ? 0 : INT32_MAX; user->_buffer._size = 8;
  if (table_last) { by_order()[1] = user; by_order()[2] = tab; }
  c->_address_table_section = tab;
  for (uint32_t j = 0; j < 16; j++) sbuf[0][j] = nondet_u8();
  for (uint32_t j = 0; j < 8; j++) sbuf[2][j] = nondet_u8();
  // call/jmp sites as x86 _emit leaves them: [REX] [E8|E9] [00 00 00 00]; the opcode byte is symbolic (anything else must be refused)
  uint8_t op1 = sbuf[0][1], op2 = nondet_bool() ? 0xE8 : 0xE9;
  if (!bad_opcode) op1 = nondet_bool() ? 0xE8 : 0xE9; else V_ASSUME(op1 != 0xE8 && op1 != 0xE9);
  sbuf[0][1] = op1; sbuf[0][9] = op2;
  for (uint32_t j = 2; j < 6; j++) { sbuf[0][j] = 0; sbuf[0][8 + j] = 0; }
  uint8_t rex1 = sbuf[0][0], rex2 = sbuf[0][8];
  RelocEntry* r1 = add_reloc(RelocType::kX64AddressEntry);
  r1->_format.reset_to_simple_value(OffsetType::kSignedOffset, 4); r1->_format.set_leading_and_trailing_size(2, 0);
  r1->_source_section_id = 0; r1->_source_offset = 0; r1->_payload = p1;
  if (n_rel == 2) {
    RelocEntry* r2 = add_reloc(RelocType::kX64AddressEntry);
    r2->_format.reset_to_simple_value(OffsetType::kSignedOffset, 4); r2->_format.set_leading_and_trailing_size(2, 0);
    r2->_source_section_id = 0; r2->_source_offset = 8; r2->_payload = p2;
  }
  // address table entries: one per distinct target, slots unassigned (a red-black tree of one or two nodes)
  AddressTableEntry* e1 = &ent0; AddressTableEntry* e2 = &ent1;
  e1->_tree_nodes[0] = 0; e1->_tree_nodes[1] = 0; e1->_address = p1; e1->_slot = 0xFFFFFFFFu;
  e2->_tree_nodes[0] = 0; e2->_tree_nodes[1] = 0; e2->_address = p2; e2->_slot = 0xFFFFFFFFu;
  c->_address_table_entries._root = e1;
  if (n_ent == 2) {
    e2->_tree_nodes[0] = ArenaTreeNode::kRedMask;
    if (p2 < p1) e1->_tree_nodes[0] = uintptr_t(e2); else e1->_tree_nodes[1] = uintptr_t(e2);
  }

  uint8_t text_before[16]; memcpy(text_before, sbuf[0], 16);

  Error ferr = c->flatten();
  V_ASSERT(ferr == Error::kOk, "flatten of the three small sections succeeds");
  uint64_t tab_off = tab->_offset;
  size_t estimated = c->code_size();
  uint64_t base = nondet_u64(); V_ASSUME(base != Globals::kNoBaseAddress);
  CodeHolder::RelocationSummary summary; summary.code_size_reduction = 77;
  Error err = c->relocate_to_base(base, &summary);
  verif_observe(uint64_t(err)); v_observe_bytes(sbuf[0], 16);

  int64_t d1 = int64_t(p1 - (base + 6));
  if (bad_opcode && d1 != int64_t(int32_t(d1))) {
    V_ASSERT(err == Error::kInvalidRelocEntry, "a far target at something that is not jmp or call rel32 is refused");
    V_WITNESS("addrtab-not-jmp-call");
    return;
  }
  V_ASSERT(err == Error::kOk, "jmp or call to any absolute target is relocatable (rel32 or address table)");

  const uint8_t* im = sbuf[0];  // .text is at image offset 0
  if (IMAGE) {
    constexpr bool tl = ((IMG_CASE - 1) >> 1) & 1, far_target = (IMG_CASE - 1) & 1;
    V_ASSUME(table_last == tl && (d1 != int64_t(int32_t(d1))) == far_target);
    V_CONCRETIZE(by_order()[1], tl ? user : tab, "second section in order");
    V_CONCRETIZE(by_order()[2], tl ? tab : user, "third section in order");
    V_CONCRETIZE(text->_offset, uint64_t(0), "text at offset 0");
    V_CONCRETIZE(text->_virtual_size, uint64_t(16), "text extends to the next section");
    V_CONCRETIZE(user->_offset, uint64_t(tl ? 16 : 32), "user section offset (16-byte aligned)");
    V_CONCRETIZE(tab->_offset, uint64_t(tl ? 24 : 16), "address table offset (8-byte aligned)");
    V_CONCRETIZE(user->_virtual_size, uint64_t(tl ? 8 : 0), "user section virtual size");
    if (tl) { V_CONCRETIZE(tab->_virtual_size, uint64_t(far_target ? 8 : 0), "address table trimmed to the slots in use"); V_CONCRETIZE(tab->_buffer._size, size_t(far_target ? 8 : 0), "address table buffer holds the slots in use"); }
    else {
      V_CONCRETIZE(tab->_virtual_size, uint64_t(16), "address table keeps its reserved size");
#if !KF_D5
      V_CONCRETIZE(tab->_buffer._size, size_t(far_target ? 8 : 0), "address table buffer holds the slots in use (table not last)");
#endif
    }
    memset(img, 0xCD, sizeof(img));
    Error cerr = c->copy_flattened_data(img + 8, 48, CopySectionFlags::kPadSectionBuffer);
    V_ASSERT(cerr == Error::kOk, "relocated code fits a destination of the estimated size");
    v_observe_bytes(img + 8, 24); v_observe_bytes(img + 32, 24);
    im = img + 8;
  }

  uint32_t used = 0; uint64_t slot_of[2] = { 0, 0 }; bool via[2] = { false, false };
  for (uint32_t k = 0; k < 2; k++) {
    if (k >= n_rel) continue;
    uint32_t at = k * 8; uint64_t target = k ? p2 : p1; uint8_t op = k ? op2 : op1, rex = k ? rex2 : rex1;
    uint64_t next_ip = base + at + 6;
    int64_t rel = int64_t(int32_t(uint32_t(load_le(im + at + 2, 4))));
    if (im[at + 1] == op) {  // not rewritten (the rewrite always changes the opcode byte)
      V_ASSERT(im[at] == rex, "rel32 form: prefix byte kept");
      V_ASSERT(next_ip + uint64_t(rel) == target, "rel32 form: next instruction plus rel32 is the absolute target");
    }
    else {
      via[k] = true;
      V_ASSERT(im[at] == 0xFF && im[at + 1] == (op == 0xE8 ? 0x15 : 0x25), "far target: call becomes FF 15, jmp becomes FF 25 (rip-relative indirect)");
      uint64_t slot_addr = next_ip + uint64_t(rel);
      uint64_t slot_off = slot_addr - base;  // offset of the slot inside the image
      V_ASSERT(slot_off >= tab_off && slot_off - tab_off < 8 * n_ent && ((slot_off - tab_off) & 7) == 0, "far target: disp32 designates a slot inside the reserved address table");
      slot_of[k] = slot_off;
      if (IMAGE) V_ASSERT(slot_off + 8 <= 48 && load_le(im + (slot_off < 40 ? slot_off : 40), 8) == target, "address table slot in the flattened image holds the target");
      else {
        uint64_t rel_off = slot_off - tab_off;
        bool installed = rel_off <= 8 && rel_off + 8 <= tab->buffer_size();  // bytes the flattened copy takes from the section buffer
        V_ASSERT(installed && load_le(tab->data() + (rel_off <= 8 ? rel_off : 0), 8) == target, "address table slot in the flattened image holds the target");
      }
    }
  }
  if (n_rel == 2 && via[0] && via[1]) V_ASSERT((slot_of[0] == slot_of[1]) == (p1 == p2), "equal targets share a slot, different targets have different slots");
  if (via[0] || via[1]) used = 1;
  if (via[0] && via[1] && p1 != p2) used = 2;
  for (uint32_t j = 0; j < 16; j++) if (!(j < 6) && !(n_rel == 2 && j >= 8 && j < 14)) V_ASSERT(sbuf[0][j] == text_before[j], "text bytes outside the call sites are unchanged");
  if (IMAGE) {
    for (uint32_t j = 0; j < 16; j++) V_ASSERT(im[j] == sbuf[0][j], "text bytes are installed at offset 0");
    for (uint32_t j = 0; j < 8; j++) V_ASSERT(im[user->_offset + j] == sbuf[2][j], "user section bytes are installed at the section offset");
    for (uint32_t j = 0; j < 8; j++) V_ASSERT(img[j] == 0xCD && img[8 + 48 + j] == 0xCD, "guard bytes around the image intact");
  }
  if (table_last) {
    V_ASSERT(tab->_buffer._size == 8 * used && tab->_virtual_size == 8 * used, "address table shrunk to the slots in use");
    V_ASSERT(summary.code_size_reduction == 8 * (n_ent - used), "size reduction is the unused part of the address table");
  }
  else V_ASSERT(summary.code_size_reduction == 0, "address table not last: nothing can be trimmed");
  size_t after = c->code_size();
  V_ASSERT(after <= estimated && after == estimated - summary.code_size_reduction, "size after relocation is the estimate minus the reported reduction");
  if (IMAGE) {  // one witness per layout case (each instantiation reaches exactly its own)
    if (IMG_CASE == 1) V_WITNESS("image-table-not-last-near-target");
    if (IMG_CASE == 2) V_WITNESS("image-table-not-last-far-target");
    if (IMG_CASE == 3) V_WITNESS("image-table-last-near-target");
    if (IMG_CASE == 4) V_WITNESS("image-table-last-far-target");
  }
  else if (via[0] || via[1]) V_WITNESS("addrtab-slot-used"); else if (mode == 0) V_WITNESS("addrtab-rel32-only");
}

HARNESS h_addrtab_one() { addrtab_check_n<1, false>(0); }
HARNESS h_addrtab_two() { addrtab_check_n<2, false>(0); }
HARNESS h_addrtab_one_kf_D5() { addrtab_check_n<1, false>(1); }
HARNESS h_addrtab_two_kf_D5() { addrtab_check_n<2, false>(1); }
// one call site, installed image read back from the real copy_flattened_data
HARNESS h_addrtab_image() {
  switch (nondet_u8() & 3) {
#if !KF_D5
    case 0: addrtab_check_n<1, true, 1>(0); break;   // table not last, near target
    case 1: addrtab_check_n<1, true, 2>(0); break;   // table not last, far target (the region of D5: covered by the _kf_D5 companion while the finding is open)
#endif
    case 2: addrtab_check_n<1, true, 3>(0); break;   // table last, near target
    default: addrtab_check_n<1, true, 4>(0); break;  // table last, far target
  }
}
HARNESS h_addrtab_image_kf_D5() { if (nondet_bool()) addrtab_check_n<1, true, 2>(1); else addrtab_check_n<1, true, 1>(1); }
