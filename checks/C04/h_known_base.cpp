// C04 — "assembling with the base known in advance and relocating afterwards designate the same targets": the real
// x86::Assembler::_emit of `call imm` / `jmp imm` (absolute target) is run twice on the same symbolic target and base address:
//   A. CodeHolder initialised with the base address (rel32 computed at emit time when reachable),
//   B. base unknown at emit time, then flatten() + relocate_to_base(base).
// Both byte sequences are decoded the way the CPU executes them (E8/E9 rel32, or FF /2 | FF /4 through the address-table slot)
// and must designate the requested target. Section layout: .text at offset 0 (+ .addrtab created by the emitter).
#include "ch_env.h"
#include <asmjit/x86.h>
#include <asmjit/core/emitterutils_p.h>
#include <asmjit/x86/x86instapi_p.h>
using namespace asmjit;
using namespace chenv;

union XAsmBox { x86::Assembler a; XAsmBox() noexcept {} ~XAsmBox() noexcept {} };
static XAsmBox xbox;
static int reports;
// arena objects in allocation order of the jmp/call imm path: RelocEntry, Section (.addrtab), AddressTableEntry
struct ArenaObjects { alignas(8) uint8_t reloc[Arena::aligned_size(sizeof(RelocEntry))]; alignas(8) uint8_t section[Arena::aligned_size(sizeof(Section))]; alignas(8) uint8_t entry[Arena::aligned_size(sizeof(AddressTableEntry))]; uint8_t spare[32]; };
alignas(16) static uint8_t arena_bytes[sizeof(ArenaObjects)];

ASMJIT_BEGIN_NAMESPACE
Error BaseEmitter::_report_error(Error err, const char*) { reports++; return err; }
bool BaseEmitter::is_label_valid(uint32_t label_id) const noexcept { return _code && label_id < _code->label_count(); }
namespace EmitterUtils {
Error log_instruction_failed(BaseEmitter* self, Error err, InstId, InstOptions, const Operand_&, const Operand_&, const Operand_&, const Operand_*) {
  self->reset_state(); return self->report_error(err);
}
}
ASMJIT_END_NAMESPACE

constexpr uint32_t kPos = 8;
static x86::Assembler* make_xasm(CodeHolder* c, bool x64) {
  x86::Assembler* a = &xbox.a;
#if !defined(VERIF_CBMC)
  memset(static_cast<void*>(&xbox), 0, sizeof(xbox));
#endif
  a->_code = c; a->_section = sec(0); a->_environment = c->_environment; a->_logger = nullptr; a->_error_handler = nullptr;
  a->_emitter_flags = EmitterFlags::kNone; a->_inline_comment = nullptr; a->_inst_options = InstOptions::kNone; a->_extra_reg.reset();
  a->_arch_mask = (uint64_t(1) << uint32_t(Arch::kX86)) | (uint64_t(1) << uint32_t(Arch::kX64));
  a->_forced_inst_options = x64 ? InstOptions::kNone : InstOptions::kX86_InvalidRex;
  a->_diagnostic_options = DiagnosticOptions::kNone; a->_encoding_options = EncodingOptions::kNone;
  a->_funcs.validate = x64 ? x86::InstInternal::validate_x64 : x86::InstInternal::validate_x86;
  a->_private_data = x64 ? 0x80 : 0x40;
  a->_buffer_data = sbuf[0]; a->_buffer_ptr = sbuf[0] + kPos; a->_buffer_end = sbuf[0] + kBufCap;
  sec(0)->_buffer._size = kPos;
  reports = 0;
  memset(arena_bytes, 0, sizeof(arena_bytes)); set_arena(arena_bytes, sizeof(arena_bytes));
  return a;
}
template<uint32_t BITS> static inline int64_t sx(uint64_t v) { return int64_t(v << (64 - BITS)) >> (64 - BITS); }

// Emits `call|jmp target` with the base address known (KNOWN) or not, finishes with flatten + relocate_to_base, decodes.
// Returns false when the chain reported an error; *designated receives the address the CPU would transfer control to.
template<bool X64, bool KNOWN>
static bool emit_and_resolve(bool is_call, uint64_t target, uint64_t base, uint64_t* designated) {
  CodeHolder* c = make_holder(X64 ? Arch::kX64 : Arch::kX86, 1);
  for (uint32_t j = 0; j < 32; j++) sbuf[0][j] = 0xCC;
  if (KNOWN) c->_base_address = base;
  x86::Assembler* a = make_xasm(c, X64);
  Operand_ none{}; Operand_ o0 = Imm(target);
  Error err = a->x86::Assembler::_emit(is_call ? x86::Inst::kIdCall : x86::Inst::kIdJmp, o0, none, none, EmitterUtils::no_ext);
  verif_observe(uint64_t(err)); v_observe_bytes(sbuf[0], 24);
  V_ASSERT(err == Error::kOk, "call or jmp to an absolute target is accepted");
  const uint8_t* b = sbuf[0] + kPos;
  uint32_t emitted = uint32_t(a->_buffer_ptr - sbuf[0]) - kPos;
  uint64_t d64 = target - (base + kPos + 5);
  bool near_known = !X64 || int64_t(d64) == sx<32>(d64);
  if (KNOWN && near_known) {
    // base known and target within rel32 reach: no relocation at all
    V_ASSERT(c->_relocations._size == 0 && c->_address_table_section == nullptr, "known base and reachable target: nothing left to relocate");
    if (!is_call && b[0] == 0xEB) {  // jmp short: the displacement is known at emit time and fits 8 bits
      V_ASSERT(emitted == 2, "known base and very near target: jmp rel8");
      *designated = base + kPos + 2 + uint64_t(sx<8>(b[1]));
      if (!X64) *designated = uint64_t(uint32_t(*designated));
      return true;
    }
    V_ASSERT(emitted == 5 && b[0] == (is_call ? 0xE8 : 0xE9), "known base and reachable target: plain rel32 form");
    *designated = base + kPos + 5 + uint64_t(sx<32>(load_le(b + 1, 4)));
    if (!X64) *designated = uint64_t(uint32_t(*designated));
    return true;
  }
  // a relocation was recorded (X64: with an address-table entry). Re-state the hand-over for the symbolic executor.
  ArenaObjects* ao = reinterpret_cast<ArenaObjects*>(arena_bytes);
  RelocEntry* re = reinterpret_cast<RelocEntry*>(ao->reloc);
  V_CONCRETIZE(c->_relocations._size, 1u, "one relocation recorded");
  V_CONCRETIZE(reloc_tab[0], re, "the relocation entry is the first arena object");
  V_CONCRETIZE(re->_reloc_type, X64 ? RelocType::kX64AddressEntry : RelocType::kAbsToRel, "relocation type: address-table entry in 64-bit mode, AbsToRel in 32-bit mode");
  V_ASSERT(re->_payload == target && re->_source_section_id == 0 && re->_source_offset == kPos, "relocation carries the target and the instruction position");
  if (X64) {
    Section* tab = reinterpret_cast<Section*>(ao->section);
    AddressTableEntry* ent = reinterpret_cast<AddressTableEntry*>(ao->entry);
    V_CONCRETIZE(c->_address_table_section, tab, "address table section created (second arena object)");
    V_CONCRETIZE(c->_sections._size, 2u, "two sections");
    V_CONCRETIZE(c->_sections_by_order._size, 2u, "two sections in order");
    V_CONCRETIZE(by_id()[1], tab, "address table is section 1");
    V_CONCRETIZE(by_order()[1], tab, "address table is ordered after text");
    V_CONCRETIZE(by_order()[0], sec(0), "text stays first");
    V_CONCRETIZE(c->_address_table_entries._root, ent, "one address table entry (third arena object)");
    V_CONCRETIZE(ent->_tree_nodes[0], uintptr_t(0), "entry has no left child");
    V_CONCRETIZE(ent->_tree_nodes[1], uintptr_t(0), "entry has no right child");
    V_ASSERT(ent->_address == target, "entry holds the target");
    V_CONCRETIZE(ent->_slot, 0xFFFFFFFFu, "entry has no slot yet");
    V_CONCRETIZE(tab->_virtual_size, uint64_t(8), "one slot reserved");
    V_CONCRETIZE(tab->_alignment, 8u, "address table is 8-byte aligned");
    V_CONCRETIZE(tab->_section_id, 1u, "address table has id 1");
    V_CONCRETIZE(tab->_buffer._size, size_t(0), "address table buffer is empty");
    V_CONCRETIZE(sec(0)->_buffer._size, size_t(kPos + 6), "text holds the prefix, opcode and rel32");
    V_CONCRETIZE(tab->_buffer._data, static_cast<uint8_t*>(nullptr), "address table has no buffer yet");
    V_CONCRETIZE(tab->_buffer._capacity, size_t(0), "address table has no capacity yet");
    V_CONCRETIZE(tab->_buffer._flags, CodeBufferFlags::kNone, "address table buffer is not fixed");
  }
  Error ferr = c->flatten();
  V_ASSERT(ferr == Error::kOk, "flatten succeeds");
  Error rerr = c->relocate_to_base(base, nullptr);
  verif_observe(uint64_t(rerr)); v_observe_bytes(sbuf[0], 24);
  if (rerr != Error::kOk) return false;
  uint32_t at = 0;
  if (X64) { V_ASSERT(emitted == 6, "64-bit: REX or FF, opcode, rel32"); at = 1; }
  else V_ASSERT(emitted == 5, "32-bit: opcode, rel32");
  int64_t rel = sx<32>(load_le(b + at + 1, 4));
  uint64_t next_ip = base + kPos + emitted;
  if (b[at] == (is_call ? 0xE8 : 0xE9)) {
    if (X64) V_ASSERT((b[0] & 0xF0) == 0x40, "rel32 form keeps a harmless REX prefix");
    *designated = X64 ? next_ip + uint64_t(rel) : uint64_t(uint32_t(next_ip + uint64_t(rel)));
    return true;
  }
  V_ASSERT(X64 && b[0] == 0xFF && b[1] == (is_call ? 0x15 : 0x25), "otherwise: indirect form through the address table");
  Section* tab = c->_address_table_section;
  uint64_t slot_off = next_ip + uint64_t(rel) - base - tab->_offset;
  V_ASSERT(slot_off == 0 && tab->buffer_size() == 8, "the slot is the one entry of the installed table");
  *designated = load_le(tab->data(), 8);
  return true;
}

template<bool X64>
static void known_base() {
  bool is_call = nondet_bool();
  uint64_t target = X64 ? nondet_u64() : uint64_t(nondet_u32());
  uint64_t base = X64 ? nondet_u64() : uint64_t(nondet_u32());
  V_ASSUME(base != Globals::kNoBaseAddress);
  uint64_t ta = 0, tb = 0;
  bool ok_a = emit_and_resolve<X64, true>(is_call, target, base, &ta);
  bool ok_b = emit_and_resolve<X64, false>(is_call, target, base, &tb);
  V_ASSERT(ok_a && ok_b, "call or jmp to any absolute target can be placed at any base, whether the base is known at emit time or not");
  uint64_t want = X64 ? target : uint64_t(uint32_t(target));
  V_ASSERT(ta == want, "base known in advance: the instruction designates the requested target");
  V_ASSERT(tb == want, "base assigned at relocation: the instruction designates the requested target");
  V_WITNESS("known-base-equals-relocated");
}
// 64-bit: the two runs in separate queries (each against the requested target, which gives the equality of the two)
template<bool KNOWN>
static void known_base_x64_half() {
  bool is_call = nondet_bool();
  uint64_t target = nondet_u64(), base = nondet_u64(), t = 0;
  V_ASSUME(base != Globals::kNoBaseAddress);
  bool ok = emit_and_resolve<true, KNOWN>(is_call, target, base, &t);
  V_ASSERT(ok, "64-bit call or jmp to any absolute target can be placed at any base");
  V_ASSERT(t == target, "64-bit: the instruction designates the requested target");
  if (KNOWN) V_WITNESS("known-base-designates-target"); else V_WITNESS("relocated-designates-target");
}
HARNESS h_known_base_x64_known() { known_base_x64_half<true>(); }
HARNESS h_known_base_x64_relocated() { known_base_x64_half<false>(); }
HARNESS h_known_base_x86() { known_base<false>(); }
