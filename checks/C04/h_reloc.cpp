// C04 — relocation to any base address: CodeHolder::relocate_to_base from directly constructed relocation tables.
// The base address, the payload (target) and — in the arithmetic harnesses — every section offset are full 64-bit symbolic,
// so each 2^31 / 2^32 / 2^47 / 2^63 straddle is inside the query. The oracle is what the CPU computes from the patched bytes.
#include "ch_env.h"
using namespace asmjit;
using namespace chenv;

// ---------------------------------------------------------------------------------------------------------------------
// Formats the back ends create for relocated fields.
enum FmtKind : uint32_t {
  kFmtU1, kFmtU2, kFmtU4, kFmtU8,     // embed_label (RelToAbs), 32-bit [label]/[rip] absolute (U4 with leading/trailing bytes)
  kFmtS1, kFmtS2, kFmtS4, kFmtS8,     // embed_label_delta (Expression), x86 rel8 / rel32 (AbsToRel, X64AddressEntry)
  kFmtA64Imm26, kFmtA64Imm19, kFmtA64Imm14, kFmtA64Adr, kFmtA64Adrp  // a64 branch / literal / adr / adrp with an absolute target
};

template<uint32_t K> struct Fmt;
template<uint32_t VS, bool SIGNED> struct SimpleFmt {
  static constexpr uint32_t kValueSize = VS;
  static void make(OffsetFormat& f) { f.reset_to_simple_value(SIGNED ? OffsetType::kSignedOffset : OffsetType::kUnsignedOffset, VS); }
  // value the field stands for, as a 64-bit two's complement number
  static uint64_t decode(uint64_t w) { return SIGNED ? uint64_t(VS == 8 ? int64_t(w) : (int64_t(w << (64 - 8 * VS)) >> (64 - 8 * VS))) : w; }
  static uint64_t field_mask() { return VS == 8 ? ~0ull : ((1ull << (8 * VS)) - 1); }
};
template<> struct Fmt<kFmtU1> : SimpleFmt<1, false> {}; template<> struct Fmt<kFmtU2> : SimpleFmt<2, false> {};
template<> struct Fmt<kFmtU4> : SimpleFmt<4, false> {}; template<> struct Fmt<kFmtU8> : SimpleFmt<8, false> {};
template<> struct Fmt<kFmtS1> : SimpleFmt<1, true> {};  template<> struct Fmt<kFmtS2> : SimpleFmt<2, true> {};
template<> struct Fmt<kFmtS4> : SimpleFmt<4, true> {};  template<> struct Fmt<kFmtS8> : SimpleFmt<8, true> {};
template<uint32_t BITS, uint32_t SHIFT, uint32_t DISC> struct A64ImmFmt {
  static constexpr uint32_t kValueSize = 4;
  static void make(OffsetFormat& f) { f.reset_to_imm_value(OffsetType::kSignedOffset, 4, SHIFT, BITS, DISC); }
  static uint64_t decode(uint64_t w) { uint64_t v = (w >> SHIFT) & ((1ull << BITS) - 1); return uint64_t((int64_t(v << (64 - BITS)) >> (64 - BITS)) << DISC); }
  static uint64_t field_mask() { return ((1ull << BITS) - 1) << SHIFT; }
};
template<> struct Fmt<kFmtA64Imm26> : A64ImmFmt<26, 0, 2> {}; template<> struct Fmt<kFmtA64Imm19> : A64ImmFmt<19, 5, 2> {};
template<> struct Fmt<kFmtA64Imm14> : A64ImmFmt<14, 5, 2> {};
template<bool PAGE> struct A64AdrFmt {
  static constexpr uint32_t kValueSize = 4;
  static void make(OffsetFormat& f) { f.reset_to_imm_value(PAGE ? OffsetType::kAArch64_ADRP : OffsetType::kAArch64_ADR, 4, 5, 21, 0); if (PAGE) f._imm_discard_lsb = 12; }
  static uint64_t decode(uint64_t w) { uint64_t v = (((w >> 5) & 0x7FFFF) << 2) | ((w >> 29) & 3); return uint64_t((int64_t(v << 43) >> 43) << (PAGE ? 12 : 0)); }
  static uint64_t field_mask() { return (3ull << 29) | (0x7FFFFull << 5); }
};
template<> struct Fmt<kFmtA64Adr> : A64AdrFmt<false> {}; template<> struct Fmt<kFmtA64Adrp> : A64AdrFmt<true> {};

// ---------------------------------------------------------------------------------------------------------------------
static uint8_t before[kMaxSections][kBufCap];

// Two code/data sections (0 = .text, 1 = a user section), 16 symbolic bytes each, offsets full 64-bit symbolic.
static CodeHolder* two_sections(bool x64) {
  CodeHolder* c = make_holder(x64 ? Arch::kX64 : Arch::kX86, 2);
  // (flat loops only: the generated C turns nested loops into shapes CBMC cannot unwind with a small bound)
  sec(0)->_offset = nondet_u64(); sec(0)->_buffer._size = 16;
  sec(1)->_offset = nondet_u64(); sec(1)->_buffer._size = 16;
  for (uint32_t j = 0; j < 32; j++) sbuf[j >> 4][j & 15] = nondet_u8();
  return c;
}
static void snapshot() { memcpy(before[0], sbuf[0], 16); memcpy(before[1], sbuf[1], 16); }
// every byte of both sections except [lo, hi) of section `sid` (and [lo2, hi2) of section sid2) is as it was
static void untouched_except(uint32_t sid, uint32_t lo, uint32_t hi, uint32_t sid2, uint32_t lo2, uint32_t hi2) {
  for (uint32_t j = 0; j < 32; j++) {
    uint32_t i = j >> 4, k = j & 15;
    if (!(i == sid && k >= lo && k < hi) && !(i == sid2 && k >= lo2 && k < hi2)) V_ASSERT(sbuf[i][k] == before[i][k], "bytes outside the relocated words are untouched");
  }
}

// One relocation of type AbsToAbs / RelToAbs / AbsToRel / Expression-free, format kind K, placed at SRC + LEAD inside section
// `sid` with T trailing (immediate) bytes. Checks what the patched field designates.
// The relocation type is a template parameter (chosen by a symbolic branch in the harness): with a symbolic type field the
// symbolic executor would also walk into the recursive expression evaluator with a wild payload pointer.
template<uint32_t K, uint32_t SRC, uint32_t LEAD, RelocType TYPE>
static void one_reloc_t(bool x64) {
  using F = Fmt<K>; constexpr uint32_t VS = F::kValueSize;
  CodeHolder* c = two_sections(x64);
  uint32_t sid = nondet_bool() ? 1 : 0, tid = nondet_bool() ? 1 : 0;
  uint32_t trail = nondet_u8() & 7; if (trail > 4) trail = 0;
  constexpr RelocType type = TYPE;
  RelocEntry* re = add_reloc(type);
  F::make(re->_format); re->_format.set_leading_and_trailing_size(LEAD, trail);
  re->_source_section_id = sid; re->_source_offset = SRC; re->_payload = nondet_u64();
  if (nondet_bool()) re->_target_section_id = tid;  // else: kInvalidId (absolute target / never bound)
  uint64_t base = nondet_u64();
  // placeholder: the field bits are zero in the emitted code (both back ends emit zero placeholders)
  uint8_t* word = sbuf[sid] + SRC + LEAD;
  uint64_t w0 = load_le(word, VS) & ~F::field_mask();
  for (uint32_t i = 0; i < VS; i++) word[i] = uint8_t(w0 >> (8 * i));
  snapshot();

  uint64_t payload = re->_payload, soff = sec(sid)->_offset, toff = sec(tid)->_offset;
  bool has_target = re->_target_section_id != Globals::kInvalidId;
  uint32_t region = LEAD + VS + trail;
  CodeHolder::RelocationSummary summary; summary.code_size_reduction = 77;
  Error err = c->relocate_to_base(base, &summary);
  verif_observe(uint64_t(err)); v_observe_bytes(sbuf[0], 16); v_observe_bytes(sbuf[1], 16);

  untouched_except(sid, SRC + LEAD, SRC + LEAD + VS, 9, 0, 0);
  uint64_t w = load_le(word, VS);
  V_ASSERT((w & ~F::field_mask()) == w0, "bits outside the relocated field are untouched");
  if (base == Globals::kNoBaseAddress) { V_ASSERT(err == Error::kInvalidArgument && w == w0, "relocating to kNoBaseAddress is refused"); V_WITNESS_MARK(0); return; }
  if (err != Error::kOk) { V_ASSERT(w == w0, "a refused relocation leaves the field unpatched"); }
  else {
    V_ASSERT(c->_base_address == base, "base address recorded");
    V_ASSERT(summary.code_size_reduction == 0, "no address table: no size reduction");
  }
  uint64_t dec = F::decode(w);
  uint64_t next_ip = base + soff + SRC + region;  // address of the end of the relocated region (x86: next instruction)
  if (type == RelocType::kAbsToAbs) {
    if (err == Error::kOk) { V_ASSERT(dec == payload, "AbsToAbs: field holds the absolute target"); V_WITNESS_MARK(1); }
  }
  else if (type == RelocType::kRelToAbs) {
    if (!has_target) V_ASSERT(err == Error::kInvalidRelocEntry, "RelToAbs without a target section is refused");
    if (err == Error::kOk) { V_ASSERT(dec == base + toff + payload, "RelToAbs: field holds base plus section offset plus label offset (never truncated)"); V_WITNESS_MARK(2); }
    else V_WITNESS_MARK(3);
  }
  else if (type == RelocType::kAbsToRel) {
    if (err == Error::kOk) {
      if (x64) V_ASSERT(next_ip + dec == payload, "AbsToRel 64-bit: end of region plus displacement is the absolute target");
      else V_ASSERT(uint32_t(next_ip + dec) == uint32_t(payload), "AbsToRel 32-bit: end of region plus displacement is the target modulo 2 to the 32");
      V_WITNESS_MARK(4);
    }
    else {
      // completeness for the x86 rel32 format: a target within +-2 GiB (64-bit) / any target (32-bit) must be accepted
      if (K == kFmtS4) V_ASSERT(x64 && int64_t(payload - next_ip) != int64_t(int32_t(payload - next_ip)), "AbsToRel rel32: refused only when the target is out of the 32-bit range");
      V_WITNESS_MARK(5);
    }
  }
  else V_ASSERT(err == Error::kInvalidRelocEntry, "unsupported relocation type is refused");
}

template<uint32_t K, uint32_t SRC, uint32_t LEAD>
static void one_reloc(bool x64) {
  uint32_t tsel = nondet_u8() & 3;
  if (tsel == 0) one_reloc_t<K, SRC, LEAD, RelocType::kAbsToAbs>(x64);
  else if (tsel == 1) one_reloc_t<K, SRC, LEAD, RelocType::kRelToAbs>(x64);
  else if (tsel == 2) one_reloc_t<K, SRC, LEAD, RelocType::kAbsToRel>(x64);
  else one_reloc_t<K, SRC, LEAD, RelocType::kSectionRelative>(x64);
}
#define RELOC_WITNESSES V_WITNESS_EMIT(0, "no-base-refused"); V_WITNESS_EMIT(1, "abs-to-abs"); V_WITNESS_EMIT(2, "rel-to-abs"); V_WITNESS_EMIT(3, "rel-to-abs-refused"); V_WITNESS_EMIT(4, "abs-to-rel"); V_WITNESS_EMIT(5, "abs-to-rel-refused");
#define ONE_RELOC(name, K, SRC, LEAD) HARNESS name() { chenv::wit_mask = 0; one_reloc<K, SRC, LEAD>(nondet_bool()); RELOC_WITNESSES }
ONE_RELOC(h_reloc_u1, kFmtU1, 5, 0)
ONE_RELOC(h_reloc_u2, kFmtU2, 6, 0)
ONE_RELOC(h_reloc_u4, kFmtU4, 3, 2)    // 32-bit [label+disp] / [rip]: opcode + modrm, disp32, optional immediate
ONE_RELOC(h_reloc_u8, kFmtU8, 8, 0)
ONE_RELOC(h_reloc_s1, kFmtS1, 2, 1)    // jecxz / loop imm
ONE_RELOC(h_reloc_s4, kFmtS4, 1, 3)    // call/jmp imm, rip-relative [abs]
ONE_RELOC(h_reloc_s8, kFmtS8, 0, 0)
HARNESS h_reloc_a64_imm26() { chenv::wit_mask = 0; one_reloc<kFmtA64Imm26, 4, 0>(true); RELOC_WITNESSES }
HARNESS h_reloc_a64_imm19() { chenv::wit_mask = 0; one_reloc<kFmtA64Imm19, 8, 0>(true); RELOC_WITNESSES }
HARNESS h_reloc_a64_imm14() { chenv::wit_mask = 0; one_reloc<kFmtA64Imm14, 0, 0>(true); RELOC_WITNESSES }
HARNESS h_reloc_a64_adr() { chenv::wit_mask = 0; one_reloc<kFmtA64Adr, 12, 0>(true); RELOC_WITNESSES }
HARNESS h_reloc_a64_adrp() { chenv::wit_mask = 0; one_reloc<kFmtA64Adrp, 4, 0>(true); RELOC_WITNESSES }

// ---------------------------------------------------------------------------------------------------------------------
// Expression relocation as embed_label_delta creates it: (label - base_label), signed field of 1/2/4/8 bytes; labels bound in
// either section, unbound, or invalid.
static Expression expr_mem;
template<uint32_t K>
static void expr_reloc() {
  using F = Fmt<K>; constexpr uint32_t VS = F::kValueSize;
  CodeHolder* c = two_sections(nondet_bool());
  uint32_t sa = nondet_bool() ? 1 : 0, sb = nondet_bool() ? 1 : 0;
  uint64_t oa = nondet_u64(), ob = nondet_u64();
  bool a_bound = nondet_bool(), b_bound = nondet_bool();
  uint32_t la = a_bound ? add_bound_label(sa, oa) : add_label();
  uint32_t lb = b_bound ? add_bound_label(sb, ob) : add_label();
  uint32_t id_b = nondet_bool() ? lb : 2 + (nondet_u32() & 0xFFFFFF);  // sometimes an id beyond the label table
  expr_mem.reset(); expr_mem.op_type = ExpressionOpType::kSub;
  expr_mem.set_value_as_label_id(0, la); expr_mem.set_value_as_label_id(1, id_b);
  RelocEntry* re = add_reloc(RelocType::kExpression);
  F::make(re->_format); re->_source_section_id = 1; re->_source_offset = 4; re->_payload = uint64_t(uintptr_t(&expr_mem));
  uint8_t* word = sbuf[1] + 4;
  for (uint32_t i = 0; i < VS; i++) word[i] = 0;
  snapshot();
  uint64_t base = nondet_u64(); V_ASSUME(base != Globals::kNoBaseAddress);
  Error err = c->relocate_to_base(base, nullptr);
  verif_observe(uint64_t(err)); v_observe_bytes(sbuf[1], 16);
  untouched_except(1, 4, 4 + VS, 9, 0, 0);
  uint64_t w = load_le(word, VS);
  if (id_b != lb || !a_bound || !b_bound) {
    V_ASSERT(err != Error::kOk && w == 0, "expression over an invalid or unbound label is refused and nothing is written");
    if (a_bound && id_b != lb) { V_ASSERT(err == Error::kInvalidLabel, "expression with an invalid label id: kInvalidLabel"); V_WITNESS_MARK(6); }
    else if (id_b == lb) { V_ASSERT(err == Error::kExpressionLabelNotBound, "expression over an unbound label: kExpressionLabelNotBound"); V_WITNESS_MARK(7); }
    return;
  }
  uint64_t delta = (sec(sa)->_offset + oa) - (sec(sb)->_offset + ob);
  bool fits = VS == 8 || int64_t(delta) == (int64_t(delta << (64 - 8 * VS)) >> (64 - 8 * VS));
  V_ASSERT((err == Error::kOk) == fits, "label delta accepted iff it fits the signed field");
  if (err == Error::kOk) { V_ASSERT(F::decode(w) == delta, "label delta field holds (section plus label) - (section plus base label)"); V_WITNESS_MARK(8); }
  else { V_ASSERT(err == Error::kInvalidRelocEntry && w == 0, "label delta that does not fit is reported and nothing is written"); if (VS < 8) V_WITNESS_MARK(9); }
}
HARNESS h_reloc_expr_1() { chenv::wit_mask = 0;  expr_reloc<kFmtS1>(); V_WITNESS_EMIT(6, "expr-invalid-label"); V_WITNESS_EMIT(7, "expr-unbound"); V_WITNESS_EMIT(8, "expr-delta"); V_WITNESS_EMIT(9, "expr-delta-refused"); }
HARNESS h_reloc_expr_2() { chenv::wit_mask = 0;  expr_reloc<kFmtS2>(); V_WITNESS_EMIT(6, "expr-invalid-label"); V_WITNESS_EMIT(7, "expr-unbound"); V_WITNESS_EMIT(8, "expr-delta"); V_WITNESS_EMIT(9, "expr-delta-refused"); }
HARNESS h_reloc_expr_4() { chenv::wit_mask = 0;  expr_reloc<kFmtS4>(); V_WITNESS_EMIT(6, "expr-invalid-label"); V_WITNESS_EMIT(7, "expr-unbound"); V_WITNESS_EMIT(8, "expr-delta"); V_WITNESS_EMIT(9, "expr-delta-refused"); }
HARNESS h_reloc_expr_8() { chenv::wit_mask = 0;  expr_reloc<kFmtS8>(); V_WITNESS_EMIT(6, "expr-invalid-label"); V_WITNESS_EMIT(7, "expr-unbound"); V_WITNESS_EMIT(8, "expr-delta"); }
// ---------------------------------------------------------------------------------------------------------------------
// Two entries (+ a deleted one in front): each is applied independently of the other; a refused entry stops with an error.
template<RelocType T1, RelocType T2>
static void two_relocs() {
  bool x64 = nondet_bool();
  CodeHolder* c = two_sections(x64);
  add_reloc(RelocType::kNone);  // deleted / optimised-out entry: skipped
  RelocEntry* r1 = add_reloc(T1);
  RelocEntry* r2 = add_reloc(T2);
  // entry 1: section 0, bytes 2..5 (rel32 / abs32 with 2 leading bytes); entry 2: section 1 or 0, bytes 9..12 with one trailing byte
  r1->_format.reset_to_simple_value(r1->_reloc_type == RelocType::kAbsToRel ? OffsetType::kSignedOffset : OffsetType::kUnsignedOffset, 4);
  r1->_format.set_leading_and_trailing_size(2, 0); r1->_source_section_id = 0; r1->_source_offset = 0; r1->_target_section_id = 1; r1->_payload = nondet_u64();
  uint32_t s2 = nondet_bool() ? 1 : 0;
  r2->_format.reset_to_simple_value(r2->_reloc_type == RelocType::kAbsToRel ? OffsetType::kSignedOffset : OffsetType::kUnsignedOffset, 4);
  r2->_format.set_leading_and_trailing_size(1, 1); r2->_source_section_id = s2; r2->_source_offset = 8; r2->_target_section_id = 0; r2->_payload = nondet_u64();
  for (uint32_t i = 0; i < 4; i++) { sbuf[0][2 + i] = 0; sbuf[s2][9 + i] = 0; }
  snapshot();
  uint64_t base = nondet_u64(); V_ASSUME(base != Globals::kNoBaseAddress);
  Error err = c->relocate_to_base(base, nullptr);
  verif_observe(uint64_t(err)); v_observe_bytes(sbuf[0], 16); v_observe_bytes(sbuf[1], 16);
  uint64_t w1 = load_le(sbuf[0] + 2, 4), w2 = load_le(sbuf[s2] + 9, 4);
  uint64_t want1 = r1->_reloc_type == RelocType::kRelToAbs ? base + sec(1)->_offset + r1->_payload : r1->_payload - (base + sec(0)->_offset + 6);
  uint64_t want2 = r2->_reloc_type == RelocType::kRelToAbs ? base + sec(0)->_offset + r2->_payload : r2->_payload - (base + sec(s2)->_offset + 8 + 6);
  if (err == Error::kOk) {
    if (r1->_reloc_type == RelocType::kRelToAbs) V_ASSERT(w1 == want1, "two entries: first RelToAbs applied exactly");
    else V_ASSERT(x64 ? uint64_t(int64_t(int32_t(w1))) == want1 : uint32_t(w1) == uint32_t(want1), "two entries: first AbsToRel applied exactly");
    if (r2->_reloc_type == RelocType::kRelToAbs) V_ASSERT(w2 == want2, "two entries: second RelToAbs applied exactly");
    else V_ASSERT(x64 ? uint64_t(int64_t(int32_t(w2))) == want2 : uint32_t(w2) == uint32_t(want2), "two entries: second AbsToRel applied exactly");
    V_WITNESS_MARK(10);
  }
  else {
    V_ASSERT(w2 == 0 || w1 != 0, "two entries: entries are applied in order");
    V_WITNESS_MARK(11);
  }
  untouched_except(0, 2, 6, s2, 9, 13);
}

HARNESS h_reloc_two() {
  chenv::wit_mask = 0;
  uint32_t sel = nondet_u8() & 3;
  if (sel == 0) two_relocs<RelocType::kRelToAbs, RelocType::kRelToAbs>();
  else if (sel == 1) two_relocs<RelocType::kRelToAbs, RelocType::kAbsToRel>();
  else if (sel == 2) two_relocs<RelocType::kAbsToRel, RelocType::kRelToAbs>();
  else two_relocs<RelocType::kAbsToRel, RelocType::kAbsToRel>();
  V_WITNESS_EMIT(10, "two-relocs-ok"); V_WITNESS_EMIT(11, "two-relocs-refused");
}

// Entry whose region does not lie inside the section buffer: refused, nothing written.
HARNESS h_reloc_bounds() {
  CodeHolder* c = two_sections(nondet_bool());
  RelocEntry* re = add_reloc(RelocType::kAbsToAbs);
  uint32_t vs = 1u << (nondet_u8() & 3);
  re->_format.reset_to_simple_value(OffsetType::kUnsignedOffset, vs);
  re->_format.set_leading_and_trailing_size(nondet_u8() & 3, nondet_u8() & 7);
  re->_source_section_id = nondet_bool() ? 1 : 0; re->_source_offset = nondet_u64(); re->_payload = 0;
  snapshot();
  uint64_t base = nondet_u64(); V_ASSUME(base != Globals::kNoBaseAddress);
  Error err = c->relocate_to_base(base, nullptr);
  bool inside = re->_source_offset < 16 && 16 - re->_source_offset >= re->_format.region_size();
  V_ASSERT((err == Error::kOk) == inside, "entry accepted iff its region lies inside the section buffer");
  if (!inside) { V_ASSERT(err == Error::kInvalidRelocEntry, "out-of-bounds entry is kInvalidRelocEntry"); V_WITNESS("reloc-out-of-bounds"); }
  else V_WITNESS("reloc-in-bounds");
  untouched_except(9, 0, 0, 9, 0, 0);
}
