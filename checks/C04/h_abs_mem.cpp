// C04 — absolute memory operands in 64-bit code through the real x86::Assembler::_emit: `[rel <absolute address>]`
// (x86::ptr_rel, or a default-type absolute operand, which becomes RIP-relative when the base address is not known), with
// and without an immediate of 1/2/4 bytes after the disp32 field.
//   B. base unknown at emit time -> kAbsToRel relocation -> relocate_to_base(symbolic base): decoded the way the CPU does,
//      end of the WHOLE instruction (RIP points past the trailing immediate) + disp32 must be the requested address;
//   A. the same instruction emitted with the base known at init must give byte for byte the same image.
#include "ch_env.h"
#include <asmjit/x86.h>
#include <asmjit/core/emitterutils_p.h>
#include <asmjit/x86/x86instapi_p.h>
using namespace asmjit;
using namespace chenv;

union XAsmBox { x86::Assembler a; XAsmBox() noexcept {} ~XAsmBox() noexcept {} };
static XAsmBox xbox;
static int reports;
alignas(16) static uint8_t arena_bytes[96];

ASMJIT_BEGIN_NAMESPACE
Error BaseEmitter::_report_error(Error err, const char*) { reports++; return err; }
bool BaseEmitter::is_label_valid(uint32_t label_id) const noexcept { return _code && label_id < _code->label_count(); }
namespace EmitterUtils {
Error log_instruction_failed(BaseEmitter* self, Error err, InstId, InstOptions, const Operand_&, const Operand_&, const Operand_&, const Operand_*) {
  self->reset_state(); return self->report_error(err);
}
}
ASMJIT_END_NAMESPACE

constexpr uint32_t kPos = 8;
static x86::Assembler* make_xasm(CodeHolder* c) {
  x86::Assembler* a = &xbox.a;
#if !defined(VERIF_CBMC)
  memset(static_cast<void*>(&xbox), 0, sizeof(xbox));
#endif
  a->_code = c; a->_section = sec(0); a->_environment = c->_environment; a->_logger = nullptr; a->_error_handler = nullptr;
  a->_emitter_flags = EmitterFlags::kNone; a->_inline_comment = nullptr; a->_inst_options = InstOptions::kNone; a->_extra_reg.reset();
  a->_arch_mask = (uint64_t(1) << uint32_t(Arch::kX86)) | (uint64_t(1) << uint32_t(Arch::kX64));
  a->_forced_inst_options = InstOptions::kNone;
  a->_diagnostic_options = DiagnosticOptions::kNone; a->_encoding_options = EncodingOptions::kNone;
  a->_funcs.validate = x86::InstInternal::validate_x64;
  a->_private_data = 0x80;
  a->_buffer_data = sbuf[0]; a->_buffer_ptr = sbuf[0] + kPos; a->_buffer_end = sbuf[0] + kBufCap;
  sec(0)->_buffer._size = kPos;
  reports = 0;
  memset(arena_bytes, 0, sizeof(arena_bytes)); set_arena(arena_bytes, sizeof(arena_bytes));
  return a;
}
template<uint32_t BITS> static inline int64_t sx(uint64_t v) { return int64_t(v << (64 - BITS)) >> (64 - BITS); }

enum Form : uint32_t { kLoad, kStore, kCmpImm8, kAddImm8, kMovImm16, kMovImm32, kTestImm32, kImulImm32 };
struct Shape { uint32_t lead, imm_size; uint8_t b0, b1, b2; };   // bytes in front of disp32 (prefix/opcode/modrm), trailing immediate
template<uint32_t FORM> static constexpr Shape shape() {
  switch (FORM) {
    case kLoad:      return { 2, 0, 0x8B, 0x0D, 0 };        // mov ecx, [rip+d]
    case kStore:     return { 2, 0, 0x89, 0x0D, 0 };        // mov [rip+d], ecx
    case kCmpImm8:   return { 2, 1, 0x80, 0x3D, 0 };        // cmp byte [rip+d], ib
    case kAddImm8:   return { 2, 1, 0x83, 0x05, 0 };        // add dword [rip+d], ib
    case kMovImm16:  return { 3, 2, 0x66, 0xC7, 0x05 };     // mov word [rip+d], iw
    case kMovImm32:  return { 2, 4, 0xC7, 0x05, 0 };        // mov dword [rip+d], id
    case kTestImm32: return { 3, 4, 0x48, 0xF7, 0x05 };     // test qword [rip+d], id
    default:         return { 2, 4, 0x69, 0x15, 0 };        // imul edx, [rip+d], id
  }
}

// Emits the instruction of FORM referring to absolute address `target`. explicit_rel: x86::ptr_rel (address type kRel), otherwise a
// default-type absolute operand.
template<uint32_t FORM>
static Error emit_form(x86::Assembler* a, uint64_t target, uint32_t imm, bool explicit_rel) {
  constexpr uint32_t msize = FORM == kCmpImm8 ? 1 : FORM == kMovImm16 ? 2 : FORM == kTestImm32 ? 8 : 4;
  x86::Mem m = explicit_rel ? x86::ptr_rel(target, msize) : x86::ptr(target, msize);
  Operand_ none{}; Operand_ o0 = none, o1 = none, o2 = none; InstId inst;
  switch (FORM) {
    case kLoad: inst = x86::Inst::kIdMov; o0 = x86::ecx; o1 = m; break;
    case kStore: inst = x86::Inst::kIdMov; o0 = m; o1 = x86::ecx; break;
    case kCmpImm8: inst = x86::Inst::kIdCmp; o0 = m; o1 = Imm(imm); break;
    case kAddImm8: inst = x86::Inst::kIdAdd; o0 = m; o1 = Imm(imm); break;
    case kMovImm16: case kMovImm32: inst = x86::Inst::kIdMov; o0 = m; o1 = Imm(imm); break;
    case kTestImm32: inst = x86::Inst::kIdTest; o0 = m; o1 = Imm(imm); break;
    default: inst = x86::Inst::kIdImul; o0 = x86::edx; o1 = m; o2 = Imm(imm); break;
  }
  return a->x86::Assembler::_emit(inst, o0, o1, o2, EmitterUtils::no_ext);
}

static uint8_t image_b[kBufCap];

template<uint32_t FORM>
static void abs_mem() {
  constexpr Shape sh = shape<FORM>();
  constexpr uint32_t len = sh.lead + 4 + sh.imm_size;
  uint64_t target = nondet_u64(), base = nondet_u64();
  V_ASSUME(base != Globals::kNoBaseAddress);
  bool explicit_rel = nondet_bool();
  // immediate: symbolic within the form's width (imm32 forms: outside the int8 range, so the 81/69 opcode is the one requested)
  uint32_t imm = sh.imm_size == 1 ? uint32_t(nondet_u8() & 0x7F) : sh.imm_size == 2 ? uint32_t(nondet_u16()) : (nondet_u32() & 0x7FFFFFFFu) | 0x100u;

  // ---- B: base unknown while assembling, assigned by relocate_to_base
  CodeHolder* c = make_holder(Arch::kX64, 1);
  for (uint32_t j = 0; j < 32; j++) sbuf[0][j] = 0xCC;
  x86::Assembler* a = make_xasm(c);
  Error err = emit_form<FORM>(a, target, imm, explicit_rel);
  verif_observe(uint64_t(err)); v_observe_bytes(sbuf[0], 24);
  V_ASSERT(err == Error::kOk, "absolute memory operand is accepted when the base address is not known yet");
  const uint8_t* b = sbuf[0] + kPos;
  V_ASSERT(uint32_t(a->_buffer_ptr - sbuf[0]) == kPos + len, "instruction length: prefix, opcode, modrm, disp32, immediate");
  V_ASSERT(b[0] == sh.b0 && b[1] == sh.b1 && (sh.lead < 3 || b[2] == sh.b2), "requested opcode with a rip-relative modrm (mod 00, rm 101)");
  V_ASSERT(load_le(b + sh.lead, 4) == 0, "disp32 placeholder is zero");
  // hand-over re-stated for the symbolic executor
  RelocEntry* re = reinterpret_cast<RelocEntry*>(arena_bytes);
  V_CONCRETIZE(c->_relocations._size, 1u, "one relocation recorded");
  V_CONCRETIZE(reloc_tab[0], re, "the relocation entry is the first arena object");
  V_CONCRETIZE(re->_reloc_type, RelocType::kAbsToRel, "relocation type is AbsToRel");
  V_CONCRETIZE(re->_source_section_id, 0u, "relocation is in the text section");
  V_CONCRETIZE(sec(0)->_buffer._size, size_t(kPos + len), "text holds the instruction");
  V_ASSERT(re->_payload == target && re->_source_offset == kPos, "relocation carries the absolute address and the instruction position");
  Error rerr = c->relocate_to_base(base, nullptr);
  verif_observe(uint64_t(rerr)); v_observe_bytes(sbuf[0], 24);
  uint64_t end_ip = base + kPos + len;                 // RIP while the operand is evaluated: past the whole instruction
  int64_t need = int64_t(target - end_ip);
  bool reachable = need == sx<32>(uint64_t(need));
  V_ASSERT((rerr == Error::kOk) == reachable, "relocation succeeds iff the address is within rel32 reach of the end of the instruction");
  if (!reachable) { V_ASSERT(load_le(b + sh.lead, 4) == 0, "refused relocation leaves the placeholder"); V_WITNESS_MARK(1); return; }
  V_ASSERT(end_ip + uint64_t(sx<32>(load_le(b + sh.lead, 4))) == target, "relocated: end of instruction plus disp32 is the requested absolute address");
  if (sh.imm_size == 1) V_ASSERT(b[sh.lead + 4] == uint8_t(imm), "trailing imm8 intact");
  if (sh.imm_size == 2) V_ASSERT(load_le(b + sh.lead + 4, 2) == (imm & 0xFFFF), "trailing imm16 intact");
  if (sh.imm_size == 4) V_ASSERT(load_le(b + sh.lead + 4, 4) == imm, "trailing imm32 intact");
  V_ASSERT(b[len] == 0xCC, "nothing written behind the instruction");
  memcpy(image_b, sbuf[0], kBufCap);

  // ---- A: base known in advance (explicit [rel]: the displacement is computed at emit time)
  c = make_holder(Arch::kX64, 1);
  for (uint32_t j = 0; j < 32; j++) sbuf[0][j] = 0xCC;
  c->_base_address = base;
  a = make_xasm(c);
  Error err_a = emit_form<FORM>(a, target, imm, true);
  verif_observe(uint64_t(err_a)); v_observe_bytes(sbuf[0], 24);
  V_ASSERT(err_a == Error::kOk && c->_relocations._size == 0, "base known in advance: reachable address needs no relocation");
  for (uint32_t j = 0; j < 24; j++) V_ASSERT(sbuf[0][j] == image_b[j], "image relocated afterwards equals the image assembled with the base known in advance");
  V_WITNESS_MARK(0);
}

#define ABS_MEM(name, form, refusable) HARNESS name() { chenv::wit_mask = 0; abs_mem<form>(); V_WITNESS_EMIT(0, "abs-mem-relocated-equals-known-base"); V_WITNESS_EMIT(1, "abs-mem-out-of-reach"); }
ABS_MEM(h_abs_mem_load, kLoad, 1)
ABS_MEM(h_abs_mem_store, kStore, 1)
ABS_MEM(h_abs_mem_cmp_imm8, kCmpImm8, 1)
ABS_MEM(h_abs_mem_add_imm8, kAddImm8, 1)
ABS_MEM(h_abs_mem_mov_imm16, kMovImm16, 1)
ABS_MEM(h_abs_mem_mov_imm32, kMovImm32, 1)
ABS_MEM(h_abs_mem_test_imm32, kTestImm32, 1)
ABS_MEM(h_abs_mem_imul_imm32, kImulImm32, 1)
