# C04 — relocation to any base address
CH = ['asmjit/core/codeholder.cpp', 'asmjit/core/codewriter.cpp']
UNITS = [
    Unit('reloc', harness=['h_reloc.cpp'], repo_units=CH),
    Unit('addrtab', harness=['h_addrtab.cpp'], repo_units=CH),
    Unit('absmem', harness=['h_abs_mem.cpp'], repo_units=CH + ['asmjit/x86/x86assembler.cpp', 'asmjit/x86/x86instdb.cpp', 'asmjit/x86/x86instapi.cpp']),
    Unit('labelabs', harness=['../C03/h_x86ref.cpp'], repo_units=CH + ['asmjit/x86/x86assembler.cpp', 'asmjit/x86/x86instdb.cpp', 'asmjit/x86/x86instapi.cpp']),
    Unit('knownbase', harness=['h_known_base.cpp'], repo_units=CH + ['asmjit/x86/x86assembler.cpp', 'asmjit/x86/x86instdb.cpp', 'asmjit/x86/x86instapi.cpp'], extra_c=['../C10/memmove_words.c']),
]
B1 = 'base address, payload and both section offsets all 2^64 values; relocation type AbsToAbs / RelToAbs / AbsToRel / unsupported; source and target section 0 or 1; target section set or kInvalidId; 0..4 trailing immediate bytes; x86-32 and 64-bit address size; 16 symbolic bytes per section (field bits zero)'
HARNESSES = [Harness('reloc', 'h_reloc_' + k, unwind=33, bounds='format ' + k + '; ' + B1, mem_gb=1, timeout=600) for k in ('u1', 'u2', 'u4', 'u8', 's1', 's4', 's8')]
HARNESSES += [Harness('reloc', 'h_reloc_a64_' + k, unwind=33, bounds='a64 format ' + k + ' (64-bit address size); ' + B1, mem_gb=1, timeout=600) for k in ('imm26', 'imm19', 'imm14', 'adr', 'adrp')]
HARNESSES += [Harness('reloc', 'h_reloc_expr_%d' % n, unwind=33, bounds='label delta expression, signed %d-byte field; labels bound at any 2^64 offset in either section, unbound, or invalid id; section offsets and base all 2^64' % n, mem_gb=1, timeout=600) for n in (1, 2, 4, 8)]
BA = 'x86-64; %s call/jmp rel32 site(s) with symbolic REX and opcode bytes; targets and base address all 2^64 values; .text 16 bytes + user section 8 bytes ordered before or after .addrtab; flatten + relocate_to_base; image bytes = section buffer bytes at the section offset (the copy itself: C10 and h_addrtab_image)'
HARNESSES += [
    Harness('reloc', 'h_reloc_two', unwind=33, bounds='a deleted entry + two entries of type RelToAbs / AbsToRel (rel32 / abs32 with leading and trailing bytes) in the same or different sections; base, payloads, section offsets all 2^64', mem_gb=1, timeout=600),
    Harness('reloc', 'h_reloc_bounds', unwind=33, bounds='source offset all 2^64 values, value size 1/2/4/8, 0..3 leading and 0..7 trailing bytes against 16-byte buffers', mem_gb=1, timeout=600),
    Harness('addrtab', 'h_addrtab_one', unwind=33, bounds=BA % 'one', mem_gb=2, timeout=900),
    Harness('addrtab', 'h_addrtab_two', unwind=33, bounds=BA % 'two', mem_gb=5, timeout=1200),
    Harness('addrtab', 'h_addrtab_one_kf_D5', unwind=33, known='D5', bounds='as h_addrtab_one, confined to: a user section is ordered after .addrtab', mem_gb=2, timeout=900),
    Harness('addrtab', 'h_addrtab_two_kf_D5', unwind=33, known='D5', bounds='as h_addrtab_two, confined to: a user section is ordered after .addrtab', mem_gb=8, timeout=1200, tiers=('thorough',)),
    Harness('addrtab', 'h_addrtab_image', unwind=33, bounds='as h_addrtab_one, layout case (table last or not) x (target within rel32 reach or not) fixed per instantiation; every byte is read back from the 48-byte destination of the real copy_flattened_data (8+8 guard bytes)', mem_gb=5, timeout=1800),
    Harness('addrtab', 'h_addrtab_image_kf_D5', unwind=33, known='D5', bounds='as h_addrtab_image, confined to: a user section is ordered after .addrtab', mem_gb=5, timeout=1800, tiers=('thorough',)),
    Harness('knownbase', 'h_known_base_x64_known', unwind=33, bounds='x86-64 call/jmp imm64 through the real x86 _emit with the base address known at init (+ flatten / relocate_to_base when the target is out of rel32 reach); target and base all 2^64 values', mem_gb=3, timeout=1800, flags=['--max-field-sensitivity-array-size', '256'],
            unwindset='_ZN6asmjit5v1_21L30CodeHolder_evaluate_expressionEPNS0_10CodeHolderEPNS0_10ExpressionEPm:1'),
    Harness('knownbase', 'h_known_base_x64_relocated', unwind=33, bounds='x86-64 call/jmp imm64 through the real x86 _emit with the base unknown, then flatten + relocate_to_base; target and base all 2^64 values', mem_gb=3, timeout=1800, flags=['--max-field-sensitivity-array-size', '256'],
            unwindset='_ZN6asmjit5v1_21L30CodeHolder_evaluate_expressionEPNS0_10CodeHolderEPNS0_10ExpressionEPm:1'),
    Harness('knownbase', 'h_known_base_x86', unwind=33, bounds='x86-32 call/jmp imm32 through the real x86 _emit; target and base all 2^32 values; base known at init vs assigned by relocate_to_base', mem_gb=3, timeout=1200, flags=['--max-field-sensitivity-array-size', '256'],
            unwindset='_ZN6asmjit5v1_21L30CodeHolder_evaluate_expressionEPNS0_10CodeHolderEPNS0_10ExpressionEPm:1'),
    ]
# absolute memory operands [rel addr] through the real x86 _emit, with 0/1/2/4 trailing immediate bytes (the region size of the AbsToRel relocation)
ABS_FORMS = [('load', 'mov ecx, [rel A] (no immediate)', True), ('store', 'mov [rel A], ecx (no immediate)', False), ('cmp_imm8', 'cmp byte [rel A], imm8', True), ('add_imm8', 'add dword [rel A], imm8', False),
             ('mov_imm16', 'mov word [rel A], imm16', True), ('mov_imm32', 'mov dword [rel A], imm32', True), ('test_imm32', 'test qword [rel A], imm32', False), ('imul_imm32', 'imul edx, [rel A], imm32', False)]
HARNESSES += [Harness('absmem', 'h_abs_mem_' + f, unwind=33, bounds='x86-64 ' + what + ' through the real x86 _emit; address A and base address all 2^64 values; explicit ptr_rel or default-type absolute operand; immediate symbolic within its width; base unknown + relocate_to_base vs base known at init', mem_gb=3, timeout=1200,
                      flags=['--max-field-sensitivity-array-size', '128'], unwindset='_ZN6asmjit5v1_21L30CodeHolder_evaluate_expressionEPNS0_10CodeHolderEPNS0_10ExpressionEPm:1', tiers=('quick', 'thorough') if q else ('thorough',)) for f, what, q in ABS_FORMS]
# x86-32 [label + addend]: the relocation the real _emit creates, then relocate_to_base (harness source shared with C03)
HARNESSES += [Harness('labelabs', 'h_x86_mov_abs32_' + m, unwind=33, bounds='32-bit mov ecx, [label+disp32] through the real x86 _emit, label ' + what + '; disp32 all 2^32; base and section offset below 2^32; then relocate_to_base: the field must hold base + section offset + label offset + addend',
                      mem_gb=3, timeout=1800, flags=['--max-field-sensitivity-array-size', '128'], tiers=t,
                      unwindset=','.join(uw + ['_ZN6asmjit5v1_21L30CodeHolder_evaluate_expressionEPNS0_10CodeHolderEPNS0_10ExpressionEPm:1']))
              for m, what, uw, t in (('bound', 'already bound in this section below 2 GiB', [], ('quick', 'thorough')),
                                     ('later', 'bound afterwards below 2 GiB', [','.join('_ZN6asmjit5v1_2110CodeHolder10bind_labelERKNS0_5LabelEjm.%d:5' % i for i in range(8))], ('thorough',)))]
EXPLANATION = 'bounded symbolic execution (CBMC) of the real CodeHolder::relocate_to_base / flatten / copy_flattened_data / CodeWriterUtils::write_offset compiled from /repo, from directly constructed relocation tables; the oracle decodes the patched bytes the way the CPU does (reference decoders in the harness)'
OUTSIDE = ['more than two relocation entries / two address-table entries (the loop and the tree lookup are uniform)', 'JitRuntime::_add mmap side',
           'a64 ADRP to a label (no relocation is created by the back end)', 'Thumb/A32 formats (no producer in this tree)']
ASSUMPTIONS = ['unit knownbase: the x86::Assembler is attached by construction; BaseEmitter::_report_error / is_label_valid / log_instruction_failed are harness definitions; memmove is modelled by checks/C10/memmove_words.c; values handed over by _emit (relocation, address-table section and entry) are asserted and then re-stated as constants (V_CONCRETIZE) for the symbolic executor',
               'Arena::_alloc_oneshot / ArenaVector growth / CodeHolder::grow_buffer are stubs that assert they are not reached (include/ch_env.h); the arena block end is the highest address',
               'relocation tables, label tables and the address-table tree are built directly in static storage in the state the back ends leave them (emit side: C03/H3, known-base equivalence: h_known_base_*)',
               'field bits of a relocated word are zero before relocation (both back ends emit zero placeholders; write_offset ORs the field in)',
               'relocate_to_base is called once (documented)', 'malloc does not fail (C15)']
