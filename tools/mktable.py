#!/usr/bin/env python3
"""Prints the markdown table of seeded changes (seeded/*/meta.json) for DESIGN.md section 6.7."""
import json, glob, os
V = os.path.dirname(os.path.dirname(os.path.abspath(__file__)))
rows = []
for d in sorted(glob.glob(os.path.join(V, 'seeded', '*'))):
    m = json.load(open(os.path.join(d, 'meta.json')))
    files = [l.split(' b/')[-1].strip() for l in open(os.path.join(d, 'patch.diff')) if l.startswith('diff --git a/')]
    rows.append('| %s | %s | %s | %s | %s |' % (os.path.basename(d), ', '.join(f.replace('asmjit/', '') for f in files), m['detected_by'].replace('|', '/')[:230],
                                               'yes' if m['detected_before_strengthening'] else 'no', (m.get('strengthening') or '-').replace('|', '/')[:300]))
print('| change | file | reported by | before strengthening | what was strengthened |\n|---|---|---|---|---|')
print('\n'.join(rows))
