#!/usr/bin/env python3
# LLVM-14 IR (typed pointers) -> C translator. Output is consumed by goto-cc/CBMC (symbolic execution)
# and by clang (native build used to validate the translation differentially).
import re, sys, os, collections

import argparse
ap = argparse.ArgumentParser()
ap.add_argument('inp'); ap.add_argument('out')
ap.add_argument('--nobody', default='', help='comma separated C names (or IR names) whose bodies are dropped (provided by stubs)')
ap.add_argument('--report', default=None, help='write json report (functions translated, errors)')
ARGS = ap.parse_args()
src = open(ARGS.inp).read()
nobody = set(x for x in ARGS.nobody.split(',') if x)
keep = None

def cid(n):
    n = n.strip()
    if n.startswith('@') or n.startswith('%'): n = n[1:]
    if n.startswith('"'): n = n[1:-1]
    return re.sub(r'[^A-Za-z0-9_]', lambda m: '_%02x' % ord(m.group(0)), n)

# ---------------------------------------------------------------- type parsing
class T:  # kind: int,ptr,struct(named),lit,arr,void,func,float,vec
    def __init__(s, kind, **kw): s.kind = kind; s.__dict__.update(kw)
    def __repr__(s): return tstr(s)
def tstr(t):
    k = t.kind
    if k == 'int': return 'i%d' % t.bits
    if k == 'ptr': return tstr(t.to) + '*'
    if k == 'named': return '%' + t.name
    if k == 'lit': return ('<{' if t.packed else '{') + ','.join(map(tstr, t.elems)) + ('}>' if t.packed else '}')
    if k == 'arr': return '[%d x %s]' % (t.n, tstr(t.of))
    if k == 'vec': return '<%d x %s>' % (t.n, tstr(t.of))
    if k == 'func': return tstr(t.ret) + '(' + ','.join(map(tstr, t.args)) + (',...' if t.va else '') + ')'
    return k

class P:
    def __init__(s, text, pos=0): s.s = text; s.i = pos
    def ws(s):
        while s.i < len(s.s) and s.s[s.i] in ' \t': s.i += 1
    def peek(s, lit): s.ws(); return s.s.startswith(lit, s.i)
    def eat(s, lit):
        s.ws()
        if s.s.startswith(lit, s.i): s.i += len(lit); return True
        return False
    def expect(s, lit):
        if not s.eat(lit): raise Exception('expected %r at %r' % (lit, s.s[s.i:s.i+60]))
    def word(s):
        s.ws(); m = re.compile(r'[A-Za-z_][A-Za-z0-9_.]*').match(s.s, s.i)
        if not m: return None
        s.i = m.end(); return m.group(0)
    def name(s):  # %x or @x, possibly quoted
        s.ws(); m = re.compile(r'[%@](?:"[^"]*"|[-A-Za-z0-9_.$]+)').match(s.s, s.i)
        if not m: return None
        s.i = m.end(); return m.group(0)
    def rest(s): return s.s[s.i:]

def ptype(p):
    p.ws()
    t = None
    if p.eat('void'): t = T('void')
    elif p.eat('...'): return T('va')
    elif p.peek('%'):
        n = p.name(); t = T('named', name=n[1:].strip('"'))
    elif p.peek('<{'):
        p.expect('<{'); el = []
        if not p.eat('}>'):
            while True:
                el.append(ptype(p))
                if p.eat('}>'): break
                p.expect(',')
        t = T('lit', elems=el, packed=True)
    elif p.peek('{'):
        p.expect('{'); el = []
        if not p.eat('}'):
            while True:
                el.append(ptype(p))
                if p.eat('}'): break
                p.expect(',')
        t = T('lit', elems=el, packed=False)
    elif p.peek('['):
        p.expect('['); m = re.compile(r'\s*(\d+)\s+x\s+').match(p.s, p.i); p.i = m.end()
        of = ptype(p); p.expect(']'); t = T('arr', n=int(m.group(1)), of=of)
    elif p.peek('<'):
        p.expect('<'); m = re.compile(r'\s*(\d+)\s+x\s+').match(p.s, p.i); p.i = m.end()
        of = ptype(p); p.expect('>'); t = T('vec', n=int(m.group(1)), of=of)
    else:
        m = re.compile(r'i(\d+)').match(p.s, p.i)
        if m: p.i = m.end(); t = T('int', bits=int(m.group(1)))
        else:
            w = p.word()
            if w in ('float', 'double', 'half', 'x86_fp80', 'fp128'): t = T('float', name=w)
            elif w in ('label', 'metadata', 'token'): t = T(w)
            else: raise Exception('type? %r' % p.s[p.i-10:p.i+40])
    while True:
        p.ws()
        if p.eat('*'): t = T('ptr', to=t); continue
        if p.peek('(') :
            # function type
            save = p.i; p.expect('('); args = []; va = False
            if not p.eat(')'):
                while True:
                    a = ptype(p)
                    if a.kind == 'va': va = True
                    else: args.append(a)
                    if p.eat(')'): break
                    p.expect(',')
            t = T('func', ret=t, args=args, va=va); continue
        break
    return t

# ---------------------------------------------------------------- C type emission
named = collections.OrderedDict()   # name -> T lit or None (opaque)
lit_names = {}; lit_defs = []; arr_names = {}
def ctype(t):
    k = t.kind
    if k == 'void': return 'void'
    if k == 'int':
        b = t.bits
        if b == 1: return '_Bool'
        if b in (8, 16, 32, 64): return 'uint%d_t' % b
        return 'UBV(%d)' % b
    if k == 'float': return {'float': 'float', 'double': 'double'}.get(t.name, 'long double')
    if k == 'ptr':
        if t.to.kind == 'func': return fnptr(t.to, '')
        if t.to.kind == 'void': return 'void*'
        return ctype(t.to) + '*'
    if k == 'named': return 'struct ' + cid(t.name)
    if k == 'lit':
        key = tstr(t)
        if key not in lit_names:
            nm = 'lit%d' % len(lit_names); lit_names[key] = nm
            body = ''.join('  %s;\n' % fdecl(e, 'f%d' % i, t.packed) for i, e in enumerate(t.elems))
            lit_defs.append(('struct %s {\n%s}%s;' % (nm, body or '  char _e;\n', ' __attribute__((packed))' if t.packed else ''), t.elems))
        return 'struct ' + lit_names[key]
    if k == 'arr':
        key = tstr(t)
        if key not in arr_names:
            nm = 'arr%d' % len(arr_names); arr_names[key] = nm
            lit_defs.append(('struct %s { %s; };' % (nm, decl(t.of, 'a[%d]' % max(t.n, 1)) if t.n else decl(t.of, 'a[1]')), [t.of]))
        return 'struct ' + arr_names[key]
    if k == 'vec':
        return ctype(T('arr', n=t.n, of=t.of))
    if k == 'func': return 'void'  # only through ptr
    raise Exception('ctype ' + k)
fn_typedefs = {}
def fnptr(ft, name):
    key = tstr(ft)
    if key not in fn_typedefs:
        args = ', '.join(ctype(a) for a in ft.args) or ('void' if not ft.va else '')
        if ft.va: args = (args + ', ...') if args else ''
        nm = 'fnp%d' % len(fn_typedefs)
        fn_typedefs[key] = (nm, 'typedef %s (*%s)(%s);' % (ctype(ft.ret), nm, args))
    return '%s %s' % (fn_typedefs[key][0], name)
def decl(t, name):
    if t.kind == 'ptr' and t.to.kind == 'func': return fnptr(t.to, name)
    return ctype(t) + ' ' + name

def fdecl(t, name, packed):
    """struct member declaration. An odd-width integer member (i24, i40, i48, i56: clang's storage units of bit-field
    structs) gets LLVM's ABI alignment spelled out: CBMC gives __CPROVER_bitvector[N] size ceil(N/8) and alignment 1, so
    without it member offsets and array strides of such structs differ from the LLVM layout (and from the native twin)."""
    d = decl(t, name)
    if not packed and t.kind == 'int' and t.bits not in (1, 8, 16, 32, 64) and t.bits < 64:
        nb = (t.bits + 7) // 8; a = 1
        while a < nb: a *= 2
        d += ' __attribute__((aligned(%d)))' % a
    return d

# ---------------------------------------------------------------- constants / values
class Ctx: pass
def pvalue(p, t, loc):
    """parse a value of LLVM type t, return C expression"""
    p.ws()
    n = p.name() if (p.peek('%') or p.peek('@')) else None
    if n:
        if n[0] == '@':
            g = cid(n)
            if g in func_sigs: return '(%s)&%s' % (ctype(t), g) if t.kind == 'ptr' else g
            return '(&%s)' % g
        return loc(n)
    m = re.compile(r'-?\d+').match(p.s, p.i)
    if m and t.kind == 'int':
        p.i = m.end(); v = int(m.group(0)) & ((1 << t.bits) - 1)
        if t.bits == 1: return str(v)
        if t.bits > 64: return '((%s)0x%xULL)' % (ctype(t), v) if v < (1 << 64) else bigconst(t, v)
        return '((%s)0x%xULL)' % (ctype(t), v)
    if p.eat('true'): return '1'
    if p.eat('false'): return '0'
    if p.eat('null'): return '((%s)0)' % ctype(t)
    if p.eat('undef') or p.eat('poison'):
        return zero(t)
    if p.eat('zeroinitializer'): return zero(t)
    if t.kind == 'float':
        m = re.compile(r'0x[0-9A-Fa-f]+|-?[0-9.]+(e[-+]?\d+)?').match(p.s, p.i); p.i = m.end()
        s = m.group(0)
        if s.startswith('0x'):
            import struct
            return repr(struct.unpack('>d', bytes.fromhex(s[2:].rjust(16, '0')))[0])
        return s
    w_save = p.i; w = p.word()
    if w in ('getelementptr', 'bitcast', 'inttoptr', 'ptrtoint', 'addrspacecast', 'trunc', 'zext', 'sext', 'add', 'sub', 'and', 'or', 'xor', 'shl', 'lshr', 'mul', 'icmp', 'select'):
        return constexpr(p, w, t, loc)
    p.i = w_save
    if p.peek('c"'):
        p.expect('c"'); out = []
        while not p.s.startswith('"', p.i):
            ch = p.s[p.i]
            if ch == '\\' and p.s[p.i+1] == '\\': out.append(92); p.i += 2
            elif ch == '\\': out.append(int(p.s[p.i+1:p.i+3], 16)); p.i += 3
            else: out.append(ord(ch)); p.i += 1
        p.i += 1
        return '{{' + ','.join(map(str, out)) + '}}'
    if p.peek('[') or p.peek('{') or p.peek('<{') or p.peek('<'):
        close = {'[': ']', '{': '}', '<{': '}>', '<': '>'}
        op = '<{' if p.peek('<{') else p.s[p.i]
        p.expect(op); vals = []
        if not p.eat(close[op]):
            while True:
                et = ptype(p); vals.append(pvalue(p, et, loc))
                if p.eat(close[op]): break
                p.expect(',')
        if t.kind in ('arr', 'vec'): return '{{' + ','.join(vals) + '}}'
        return '{' + ','.join(vals) + '}'
    raise Exception('value? %r (type %s)' % (p.s[p.i:p.i+60], tstr(t)))
def bigconst(t, v):
    return '((((%s)0x%xULL) << 64) | (%s)0x%xULL)' % (ctype(t), v >> 64, ctype(t), v & ((1 << 64) - 1))
def zero(t):
    if t.kind in ('int', 'float'): return '0'
    if t.kind == 'ptr': return '((%s)0)' % ctype(t)
    return '{0}'
def resolve(t):
    while t.kind == 'named': t = named[t.name]
    return t
def first_field_path(src_pointee, dst_pointee):
    """bitcast S* -> T* where T is the type of the (nested) first member of S: return the member path, so that the access
    stays typed (CBMC propagates constants through typed member accesses but not through byte-level reinterpretation)."""
    if os.environ.get('IR2C_FFP', '1') != '1': return None
    want = tstr(dst_pointee); t = src_pointee; path = ''
    for _ in range(8):
        if t.kind == 'named':
            if named.get(t.name) is None: return None
            t2 = named[t.name]
        else: t2 = t
        if tstr(t) == want and path: return path
        if t2.kind == 'lit':
            if not t2.elems: return None
            path += '.f0'; t = t2.elems[0]
        elif t2.kind == 'arr':
            if t2.n == 0: return None
            path += '.a[0]'; t = t2.of
        else: return None
        if tstr(t) == want: return path
    return None
def gep_expr(base_c, base_t, idx):
    """base_t: pointee type; idx: list of (ctype-expr, is_const, constval)"""
    e = '%s[%s]' % (base_c, idx[0][0]) if idx[0][0] != '0' else '(*%s)' % base_c
    t = base_t
    for (ie, cv) in idx[1:]:
        rt = resolve(t)
        if rt.kind == 'lit': e = '%s.f%d' % (e, cv); t = rt.elems[cv]
        elif rt.kind in ('arr', 'vec'): e = '%s.a[%s]' % (e, ie); t = rt.of
        else: raise Exception('gep into ' + tstr(rt))
    return '(&%s)' % e, t
def idxval(p, loc):
    it = ptype(p); p.ws()
    m = re.compile(r'-?\d+').match(p.s, p.i)
    if m and not p.s.startswith('%', p.i):
        p.i = m.end(); return (m.group(0), int(m.group(0)))
    v = pvalue(p, it, loc)
    sv = '(int64_t)(int%d_t)%s' % (it.bits, v) if it.bits in (8, 16, 32, 64) else v
    return (sv, None)
def constexpr(p, w, t, loc):
    if w == 'getelementptr':
        p.eat('inbounds'); p.expect('('); bt = ptype(p); p.expect(','); pt = ptype(p); base = pvalue(p, pt, loc); idx = []
        while p.eat(','):
            p.eat('inrange'); idx.append(idxval(p, loc))
        p.expect(')')
        e, _ = gep_expr(base, bt, idx); return e
    if w in ('bitcast', 'inttoptr', 'ptrtoint', 'addrspacecast', 'trunc', 'zext', 'sext'):
        p.expect('('); ft = ptype(p); v = pvalue(p, ft, loc); p.expect('to'); tt = ptype(p); p.expect(')')
        if w == 'bitcast' and ft.kind == 'ptr' and tt.kind == 'ptr' and ft.to.kind in ('named', 'lit', 'arr') and first_field_path(ft.to, tt.to):
            return '(&(*%s)%s)' % (v, first_field_path(ft.to, tt.to))
        if w == 'ptrtoint': return '((%s)(uintptr_t)%s)' % (ctype(tt), v)
        if w == 'inttoptr': return '((%s)(uintptr_t)%s)' % (ctype(tt), v)
        if w == 'sext': return '((%s)(int%d_t)%s)' % (ctype(tt), ft.bits, v)
        return '((%s)%s)' % (ctype(tt), v)
    if w in ('add', 'sub', 'and', 'or', 'xor', 'shl', 'lshr', 'mul'):
        for f in ('nuw', 'nsw', 'exact'): p.eat(f)
        p.eat('nsw'); p.expect('('); t1 = ptype(p); a = pvalue(p, t1, loc); p.expect(','); t2 = ptype(p); b = pvalue(p, t2, loc); p.expect(')')
        op = {'add': '+', 'sub': '-', 'and': '&', 'or': '|', 'xor': '^', 'shl': '<<', 'lshr': '>>', 'mul': '*'}[w]
        return '((%s)(%s %s %s))' % (ctype(t1), a, op, b)
    if w == 'icmp':
        pred = p.word(); p.expect('('); t1 = ptype(p); a = pvalue(p, t1, loc); p.expect(','); t2 = ptype(p); b = pvalue(p, t2, loc); p.expect(')')
        o = {'eq': '==', 'ne': '!=', 'ugt': '>', 'uge': '>=', 'ult': '<', 'ule': '<=', 'sgt': '>', 'sge': '>=', 'slt': '<', 'sle': '<='}[pred]
        if t1.kind == 'ptr':
            if pred in ('eq', 'ne'): return '((_Bool)((void*)%s %s (void*)%s))' % (a, o, b)
            return '((_Bool)((uintptr_t)%s %s (uintptr_t)%s))' % (a, o, b)
        if pred[0] == 's': return '((_Bool)(%s %s %s))' % (scast(t1, a), o, scast(t1, b))
        return '((_Bool)((%s)%s %s (%s)%s))' % (wide(t1), a, o, wide(t1), b)
    if w == 'select':
        p.expect('('); t0 = ptype(p); c0 = pvalue(p, t0, loc); p.expect(','); t1 = ptype(p); a = pvalue(p, t1, loc); p.expect(','); t2 = ptype(p); b = pvalue(p, t2, loc); p.expect(')')
        return '(%s ? %s : %s)' % (c0, a, b)
    raise Exception('constexpr ' + w)

# ---------------------------------------------------------------- pass 1: types, globals, function signatures
lines = src.split('\n')
func_sigs = {}   # cname -> (ret T, [arg T], va)
gstrings = {}
gstrings_raw = {}
globals_ = []    # (cname, T, init text or None, const)
GLOBAL_IR_NAME = {}
i = 0
type_re = re.compile(r'^(%(?:"[^"]*"|[-A-Za-z0-9_.$]+)) = type (.*)$')
for ln in lines:
    m = type_re.match(ln)
    if m:
        nm = m.group(1)[1:].strip('"')
        if m.group(2).strip() == 'opaque': named[nm] = None
        else: named[nm] = ptype(P(m.group(2)))
fn_re = re.compile(r'^(define|declare)\b(.*?)(@(?:"[^"]*"|[-A-Za-z0-9_.$]+))\s*\((.*)$')
PARAM_ATTRS = re.compile(r'(?<![\w.@%"])(noundef|nonnull|readonly|readnone|writeonly|nocapture|noalias|returned|zeroext|signext|inreg|immarg|nofree|nest|swiftself|align \d+|dereferenceable(_or_null)?\(\d+\)|byval\([^)]*\)|sret\([^)]*\)|captures\([^)]*\))(?![\w.])')
def strip_attrs(s):
    depth = 0; out = []
    # remove sret(...)/byval(...) including nested types
    s = re.sub(r'(?<![\w.@%"])(sret|byval|byref|preallocated|inalloca|elementtype)\((?:[^()]|\([^()]*\))*\)', '', s)
    return PARAM_ATTRS.sub('', s)
def parse_sig(ln):
    m = fn_re.match(ln)
    pre = m.group(2); name = m.group(3)
    pre = re.sub(r'dereferenceable(_or_null)?\(\d+\)', '', pre)
    pre = re.sub(r'\b(dso_local|internal|linkonce_odr|weak_odr|weak|external|private|available_externally|hidden|protected|default|local_unnamed_addr|unnamed_addr|noundef|nonnull|zeroext|signext|noalias|fastcc|ccc|coldcc|align \d+)\b', '', pre)
    rt = ptype(P(pre.strip()))
    rest = m.group(4)
    # find matching ')'
    depth = 1; j = 0
    while depth:
        c = rest[j]
        if c == '(': depth += 1
        elif c == ')': depth -= 1
        j += 1
    params = rest[:j-1]
    args = []; names = []; va = False
    # split on top-level commas
    parts = []; depth = 0; cur = ''
    for c in params:
        if c in '([{<': depth += 1
        if c in ')]}>': depth -= 1
        if c == ',' and depth == 0: parts.append(cur); cur = ''
        else: cur += c
    if cur.strip(): parts.append(cur)
    for a in parts:
        a = strip_attrs(a).strip()
        if a == '...': va = True; continue
        pp = P(a); at = ptype(pp); nm = pp.name()
        args.append(at); names.append(nm)
    return name, rt, args, names, va
i = 0
funcs = []  # (name, rt, args, names, va, bodylines or None)
while i < len(lines):
    ln = lines[i]
    if ln.startswith('define') or ln.startswith('declare'):
        name, rt, args, names, va = parse_sig(ln)
        body = None
        if ln.startswith('define'):
            body = []; i += 1
            while lines[i] != '}': body.append(lines[i]); i += 1
        func_sigs[cid(name)] = (rt, args, va)
        funcs.append((name, rt, args, names, va, body))
    i += 1
glob_re = re.compile(r'^(@(?:"[^"]*"|[-A-Za-z0-9_.$]+)) = (.*)$')
for ln in lines:
    m = glob_re.match(ln)
    if not m: continue
    rest = m.group(2)
    if ' alias ' in rest or rest.startswith('alias') or 'comdat any' == rest.strip(): continue
    rest = re.sub(r'\b(dso_local|internal|linkonce_odr|weak_odr|weak|external|private|available_externally|hidden|protected|default|local_unnamed_addr|unnamed_addr|thread_local(\([a-z]+\))?|externally_initialized)\b', '', rest).strip()
    mm = re.match(r'(global|constant)\s+(.*)$', rest)
    if not mm: continue
    const = mm.group(1) == 'constant'
    p = P(mm.group(2)); t = ptype(p)
    init = p.rest()
    init = re.sub(r',\s*(align \d+|comdat.*|section ".*?"|!dbg.*|no_sanitize.*)\s*$', '', init)
    init = re.sub(r',\s*(align \d+|comdat(\([^)]*\))?|section "[^"]*")', '', init).strip()
    globals_.append((cid(m.group(1)), t, init if init else None, const)); GLOBAL_IR_NAME[cid(m.group(1))] = m.group(1)
    ms = re.match(r'c"(.*)\\00"$', init or '')
    if ms:
        raw = re.sub(r'\\([0-9A-Fa-f]{2})', lambda k: chr(int(k.group(1), 16)), ms.group(1))
        gstrings_raw[cid(m.group(1))] = raw
        gstrings[cid(m.group(1))] = re.sub(r'[^A-Za-z0-9 _.,:=<>()-]', '_', raw)

# ---------------------------------------------------------------- pass 2: function bodies
out = []
def emit(s): out.append(s)

INTR = {}
def translate_func(name, rt, args, names, va, body):
    cname = cid(name)
    CURFN[0] = cname; STRSETS.clear()
    LASTPARAM[0] = ('v_' + cid(names[-1])) if names else None
    types = {}      # %name -> T
    for a, n in zip(args, names): types[n] = a
    def loc(n): return 'v_' + cid(n)
    # collect blocks
    blocks = collections.OrderedDict(); cur = '%0' if False else None
    # entry label: first unnamed value number = number of args (if all unnamed) -> we just call it 'entry'
    curname = 'entry'; blocks[curname] = []
    joined = []; acc = None
    for ln in body:
        if acc is not None:
            acc += ' ' + ln.strip()
            if ln.strip().startswith(']'): joined.append(acc); acc = None
            continue
        if re.match(r'^\s+switch .*\[\s*$', ln): acc = ln; continue
        joined.append(ln)
    for ln in joined:
        m = re.match(r'^([-A-Za-z0-9_.$"]+):', ln)
        if m: curname = m.group(1).strip('"'); blocks[curname] = []; continue
        s = ln.strip()
        if not s or s.startswith(';'): continue
        blocks[curname].append(s)
    # entry block label in LLVM is implicit numeric = len(args) when unnamed; detect the phi preds referencing it
    entry_alias = None
    code = collections.OrderedDict((b, []) for b in blocks)
    phis = []  # (block, dest, T, [(valtext, pred)])
    allocas = []
    ptrbase = {}
    # lvalue text of pointers computed by getelementptr / first-member bitcasts. Loads and stores through such a pointer
    # are emitted on the lvalue itself (x.a[i].f.a[0]) instead of through the materialised pointer: CBMC 6.11 returns
    # wrong values when a pointer to element 0 of an array member (not at offset 0) of an array-of-structs element with
    # a symbolic index is dereferenced, while the direct member access is handled correctly (see DESIGN.md, CBMC notes).
    # Sound for SSA: a use is dominated by its definition and no operand of the definition can be redefined in between.
    lv = {}
    def lbl(b): return 'L_' + cid(b)
    def val(p, t): return pvalue(p, t, loc)
    def define(n, t): types[n] = t; return loc(n)
    for b, ins in blocks.items():
        c = code[b]
        for s in ins:
            s = re.sub(r',\s*!.*$', '', s)       # strip metadata
            s = re.sub(r'\s+#\d+\s*$', '', s)
            m = re.match(r'^(%(?:"[^"]*"|[-A-Za-z0-9_.$]+)) = (.*)$', s)
            dest = None
            if m: dest, s = m.group(1), m.group(2)
            p = P(s); op = p.word()
            if op in ('tail', 'musttail', 'notail'): op = p.word()
            if op in ('add', 'sub', 'mul', 'and', 'or', 'xor', 'shl', 'lshr', 'ashr', 'udiv', 'sdiv', 'urem', 'srem'):
                for f in ('nuw', 'nsw', 'exact'): p.eat(f)
                p.eat('nsw'); p.eat('nuw')
                t = ptype(p); a = val(p, t); p.expect(','); b2 = val(p, t)
                ct = ctype(t)
                if t.kind in ('vec',): raise Exception('vector op')
                if op in ('add', 'sub', 'and', 'or') and dest:
                    if a in ptrbase and b2 not in ptrbase: ptrbase[loc(dest)] = ptrbase[a]
                    elif b2 in ptrbase and a not in ptrbase and op != 'sub': ptrbase[loc(dest)] = ptrbase[b2]
                bits = t.bits
                sct = 'int%d_t' % bits if bits in (8, 16, 32, 64) else 'SBV(%d)' % bits
                if op in ('add', 'sub', 'mul', 'and', 'or', 'xor'):
                    o = {'add': '+', 'sub': '-', 'mul': '*', 'and': '&', 'or': '|', 'xor': '^'}[op]
                    e = '(%s)((%s)%s %s (%s)%s)' % (ct, wide(t), a, o, wide(t), b2)
                elif op == 'shl': e = '(%s)((%s)%s << %s)' % (ct, wide(t), a, b2)
                elif op == 'lshr': e = '(%s)((%s)%s >> %s)' % (ct, wide(t), a, b2)
                elif op == 'ashr': e = '(%s)((%s)%s >> %s)' % (ct, swide(t), scast(t, a), b2)
                elif op in ('udiv', 'urem') and bits in (32, 64) and re.match(r'^\(\(uint(32|64)_t\)0x[0-9a-f]+ULL\)$', b2) and int(re.search(r'0x([0-9a-f]+)', b2).group(1), 16) > 2:
                    # division by a constant: a macro the prelude can turn into "the q with q*c <= x < q*c + c" (Unit(cbmc_defines=['VERIF_DIVC']))
                    e = '(%s)VERIF_%sC%d(%s, %s)' % (ct, op.upper(), bits, a, b2)
                elif op == 'udiv': e = '(%s)((%s)%s / (%s)%s)' % (ct, wide(t), a, wide(t), b2)
                elif op == 'urem': e = '(%s)((%s)%s %% (%s)%s)' % (ct, wide(t), a, wide(t), b2)
                elif op == 'sdiv': e = '(%s)(%s / %s)' % (ct, scast(t, a), scast(t, b2))
                elif op == 'srem': e = '(%s)(%s %% %s)' % (ct, scast(t, a), scast(t, b2))
                c.append('%s = %s;' % (define(dest, t), e))
            elif op == 'icmp':
                pred = p.word(); t = ptype(p); a = val(p, t); p.expect(','); b2 = val(p, t)
                o = {'eq': '==', 'ne': '!=', 'ugt': '>', 'uge': '>=', 'ult': '<', 'ule': '<=', 'sgt': '>', 'sge': '>=', 'slt': '<', 'sle': '<='}[pred]
                if t.kind == 'ptr':
                    if pred in ('eq', 'ne'): e = '((void*)%s %s (void*)%s)' % (a, o, b2)
                    else: e = '((uintptr_t)%s %s (uintptr_t)%s)' % (a, o, b2)
                elif pred[0] == 's': e = '(%s %s %s)' % (scast(t, a), o, scast(t, b2))
                else: e = '((%s)%s %s (%s)%s)' % (wide(t), a, o, wide(t), b2)
                c.append('%s = %s;' % (define(dest, T('int', bits=1)), e))
            elif op in ('zext', 'trunc', 'sext', 'bitcast', 'ptrtoint', 'inttoptr', 'addrspacecast', 'freeze', 'fptosi', 'fptoui', 'sitofp', 'uitofp', 'fpext', 'fptrunc'):
                ft = ptype(p); v = val(p, ft)
                if op == 'freeze': tt = ft
                else: p.expect('to'); tt = ptype(p)
                if op == 'sext': e = '(%s)%s' % (ctype(tt), scast(ft, v)) if ft.bits != 1 else '(%s)(%s ? -1 : 0)' % (ctype(tt), v)
                elif op == 'ptrtoint':
                    e = '(%s)(uintptr_t)%s' % (ctype(tt), v); ptrbase[loc(dest)] = v
                elif op == 'inttoptr':
                    if v in ptrbase: e = '(%s)((char*)%s + (ptrdiff_t)((uintptr_t)%s - (uintptr_t)%s))' % (ctype(tt), ptrbase[v], v, ptrbase[v])
                    else: e = '(%s)(uintptr_t)%s' % (ctype(tt), v)
                elif op == 'bitcast' and tt.kind != 'ptr':
                    if ft.kind == 'int' and tt.kind == 'float' and ft.bits in (32, 64): e = 'BC_u%d_f%d(%s)' % (ft.bits, ft.bits, v)
                    elif ft.kind == 'float' and tt.kind == 'int' and tt.bits in (32, 64): e = 'BC_f%d_u%d(%s)' % (tt.bits, tt.bits, v)
                    else: raise Exception('non-pointer bitcast')
                elif op == 'bitcast' and ft.kind == 'ptr' and tt.kind == 'ptr' and ft.to.kind in ('named', 'lit', 'arr') and first_field_path(ft.to, tt.to):
                    e = '(&(*%s)%s)' % (v, first_field_path(ft.to, tt.to))
                elif op in ('sitofp', 'fptosi'): e = '(%s)%s' % (ctype(tt), scast(ft, v) if ft.kind == 'int' else '(int64_t)' + v)
                elif op == 'trunc' and tt.bits == 1: e = '(%s & 1)' % v
                else: e = '(%s)%s' % (ctype(tt), v)
                c.append('%s = %s;' % (define(dest, tt), e))
            elif op == 'getelementptr':
                p.eat('inbounds'); bt = ptype(p); p.expect(','); pt = ptype(p); base = val(p, pt); idx = []
                while p.eat(','): idx.append(idxval(p, loc))
                e, rt_ = gep_expr(base, bt, idx)
                c.append('%s = %s;' % (define(dest, T('ptr', to=rt_)), e))
                # only GEPs with a symbolic index: forwarding everything slows CBMC down by two orders of magnitude
                # and only the shape that triggers the CBMC bug: ...[symbolic]...<array member>[0]
                if e.startswith('(&') and e.endswith('.a[0])') and len(idx) >= 3 and idx[-1][1] == 0 and any(cv is None for (ie, cv) in idx[:-1]) and os.environ.get('IR2C_FWD', '1') == '1': lv[loc(dest)] = e[2:-1]
            elif op == 'load':
                p.eat('atomic'); p.eat('volatile'); t = ptype(p); p.expect(','); pt = ptype(p); a = val(p, pt)
                c.append('%s = %s;' % (define(dest, t), lv[a] if a in lv else '*' + a))
            elif op == 'store':
                p.eat('atomic'); p.eat('volatile'); t = ptype(p); v = val(p, t); p.expect(','); pt = ptype(p); a = val(p, pt)
                if t.kind in ('lit', 'arr', 'named') and v.startswith('{'): v = '(%s)%s' % (ctype(t), v)
                c.append('%s = %s;' % (lv[a] if a in lv else '*' + a, v))
            elif op == 'alloca':
                t = ptype(p); cnt = None
                if p.eat(','):
                    if not p.peek('align'):
                        ct_ = ptype(p); cnt = val(p, ct_)
                nm = 'a_' + cid(dest)
                allocas.append((t, nm, cnt))
                c.append('%s = %s%s;' % (define(dest, T('ptr', to=t)), '&' if cnt is None else '', nm))
            elif op == 'phi':
                t = ptype(p); inc = []
                while True:
                    p.expect('['); v = val(p, t); p.expect(','); pr = p.name(); p.expect(']')
                    inc.append((v, pr[1:].strip('"')))
                    if not p.eat(','): break
                define(dest, t); phis.append((b, dest, t, inc))
                STRSETS[loc(dest)] = [v for (v, pr) in inc]
            elif op == 'select':
                ct_ = ptype(p); cv = val(p, ct_); p.expect(','); t = ptype(p); a = val(p, t); p.expect(','); t2 = ptype(p); b2 = val(p, t2)
                c.append('%s = %s ? %s : %s;' % (define(dest, t), cv, a, b2))
                STRSETS[loc(dest)] = [a, b2]
            elif op == 'br':
                if p.eat('label'):
                    tgt = p.name()[1:].strip('"'); c.append(('BR', tgt))
                else:
                    t = ptype(p); cv = val(p, t); p.expect(','); p.expect('label'); t1 = p.name()[1:].strip('"'); p.expect(','); p.expect('label'); t2 = p.name()[1:].strip('"')
                    c.append(('CBR', cv, t1, t2))
            elif op == 'switch':
                t = ptype(p); v = val(p, t); p.expect(','); p.expect('label'); dflt = p.name()[1:].strip('"')
                cases = []; p.expect('[')
                while not p.eat(']'):
                    ct_ = ptype(p); cv = val(p, ct_); p.expect(','); p.expect('label'); cases.append((cv, p.name()[1:].strip('"')))
                c.append(('SW', v, dflt, cases))
            elif op == 'ret':
                t = ptype(p)
                if t.kind == 'void': c.append('return;')
                else: c.append('return %s;' % val(p, t))
            elif op == 'unreachable':
                prev = c[-1] if c and isinstance(c[-1], str) else ''
                if 'VERIF_TRAP(' in prev or 'VERIF_ASMJIT_ASSERT(' in prev or prev.startswith('abort(') or prev.startswith('exit('):
                    c.append('__CPROVER_assume(0);')
                else:
                    c.append('__CPROVER_assert(0, "unreachable reached in %s"); __CPROVER_assume(0);' % cname[:80])
            elif op == 'extractvalue':
                t = ptype(p); v = val(p, t); e = v; tt = t
                while p.eat(','):
                    m2 = re.compile(r'\s*(\d+)').match(p.s, p.i); p.i = m2.end(); k = int(m2.group(1))
                    rt_ = resolve(tt)
                    if rt_.kind == 'lit': e += '.f%d' % k; tt = rt_.elems[k]
                    else: e += '.a[%d]' % k; tt = rt_.of
                c.append('%s = %s;' % (define(dest, tt), e))
            elif op == 'insertvalue':
                t = ptype(p); v = val(p, t); p.expect(','); et = ptype(p); ev = val(p, et); path = ''; tt = t
                while p.eat(','):
                    m2 = re.compile(r'\s*(\d+)').match(p.s, p.i); p.i = m2.end(); k = int(m2.group(1))
                    rt_ = resolve(tt)
                    if rt_.kind == 'lit': path += '.f%d' % k; tt = rt_.elems[k]
                    else: path += '.a[%d]' % k; tt = rt_.of
                d = define(dest, t)
                if v.startswith('{'): c.append('memset(&%s, 0, sizeof(%s));' % (d, d))
                else: c.append('%s = %s;' % (d, v))
                c.append('%s%s = %s;' % (d, path, ev))
            elif op == 'call':
                for f in ('fastcc', 'ccc', 'coldcc'): p.eat(f)
                txt = strip_attrs(p.rest()); p = P(txt)
                rt_ = ptype(p); fty = None
                if rt_.kind == 'func': fty = rt_; rt_ = fty.ret
                elif rt_.kind == 'ptr' and rt_.to.kind == 'func' and not (p.peek('%') or p.peek('@')): pass
                via_bitcast = False
                if p.peek('bitcast'):
                    # call through a constant bitcast of a function (llvm-link renamed a struct type on one side: same layout). Called
                    # directly; pointer arguments go through void* so that the C compiler accepts the differently named pointee types.
                    p.eat('bitcast'); p.expect('('); ptype(p); callee = p.name(); p.eat('to'); ptype(p); p.expect(')'); via_bitcast = True
                else:
                    callee = p.name()
                p.expect('(')
                cargs = []; atypes = []
                if not p.eat(')'):
                    while True:
                        at = ptype(p)
                        if at.kind == 'metadata':
                            # skip metadata arg
                            depth = 0
                            while not (p.s[p.i] in ',)' and depth == 0):
                                if p.s[p.i] == '(': depth += 1
                                if p.s[p.i] == ')': depth -= 1
                                p.i += 1
                            cargs.append(None); atypes.append(at)
                        else:
                            cargs.append(val(p, at)); atypes.append(at)
                        if p.eat(')'): break
                        p.expect(',')
                if via_bitcast:
                    cargs = [('(void*)' + a) if (a is not None and t_.kind == 'ptr') else a for a, t_ in zip(cargs, atypes)]
                    fty = None
                e = call_expr(callee, rt_, fty, cargs, atypes, loc, c)
                if e is None: continue
                if dest and rt_.kind != 'void': c.append('%s = %s;' % (define(dest, rt_), e))
                else: c.append('%s;' % e)
            elif op == 'atomicrmw':
                p.eat('volatile'); kind = p.word(); pt = ptype(p); a = val(p, pt); p.expect(','); t = ptype(p); v = val(p, t)
                d = define(dest, t); o = {'add': '+', 'sub': '-', 'or': '|', 'and': '&', 'xor': '^', 'xchg': None}[kind]
                c.append('%s = *%s;' % (d, a))
                c.append('*%s = %s;' % (a, v if o is None else '%s %s %s' % (d, o, v)))
            elif op == 'cmpxchg':
                p.eat('weak'); p.eat('volatile'); pt = ptype(p); a = val(p, pt); p.expect(','); t = ptype(p); ev = val(p, t); p.expect(','); t2 = ptype(p); nv = val(p, t2)
                rt_ = T('lit', elems=[t, T('int', bits=1)], packed=False); d = define(dest, rt_)
                c.append('%s.f0 = *%s; %s.f1 = (%s.f0 == %s); if (%s.f1) *%s = %s;' % (d, a, d, d, ev, d, a, nv))
            elif op == 'fence': pass
            elif op in ('fadd', 'fsub', 'fmul', 'fdiv'):
                for f in ('fast', 'nnan', 'ninf', 'nsz', 'arcp', 'contract', 'afn', 'reassoc'): p.eat(f)
                t = ptype(p); a = val(p, t); p.expect(','); b2 = val(p, t)
                c.append('%s = %s %s %s;' % (define(dest, t), a, {'fadd': '+', 'fsub': '-', 'fmul': '*', 'fdiv': '/'}[op], b2))
            elif op == 'fcmp':
                for f in ('fast', 'nnan', 'ninf', 'nsz'): p.eat(f)
                pred = p.word(); t = ptype(p); a = val(p, t); p.expect(','); b2 = val(p, t)
                o = {'oeq': '==', 'one': '!=', 'ogt': '>', 'oge': '>=', 'olt': '<', 'ole': '<=', 'ueq': '==', 'une': '!=', 'ugt': '>', 'uge': '>=', 'ult': '<', 'ule': '<='}[pred]
                c.append('%s = (%s %s %s);' % (define(dest, T('int', bits=1)), a, o, b2))
            else:
                raise Exception('unhandled op %s in %s: %s' % (op, name, s))
    # emit
    proto = fproto(cname, rt, args, [loc(n) for n in names], va)
    emit(proto + ' {')
    for n, t in types.items():
        if n in names: continue
        emit('  %s;' % decl(t, loc(n)))
    for (t, nm, cnt) in allocas:
        if cnt is None: emit('  %s;' % decl(t, nm))
        else: emit('  %s = malloc(sizeof(%s) * %s);' % (decl(T('ptr', to=t), nm), ctype(t), cnt))
    for k, (b, dest, t, inc) in enumerate(phis):
        emit('  %s;' % decl(t, 'phi_%s' % cid(dest)))
    # phi copies on edges
    first = list(blocks.keys())[0]
    def edge(frm, to):
        cp = []
        for (b, dest, t, inc) in phis:
            if b != to: continue
            for (v, pr) in inc:
                if pr == frm or (frm == first and pr not in blocks):
                    cp.append('phi_%s = %s;' % (cid(dest), v)); break
        cp2 = []
        for (b, dest, t, inc) in phis:
            if b == to and any(pr == frm or (frm == first and pr not in blocks) for (v, pr) in inc):
                cp2.append('%s = phi_%s;' % (loc(dest), cid(dest)))
        return ' '.join(cp + cp2 + ['goto %s;' % lbl(to)])
    # Emit blocks in reverse post-order of the CFG: every edge that is not a loop back edge becomes a forward goto.
    # (LLVM's textual order often places loop exits before the loop body; CBMC treats every backward goto as a loop
    # back edge, which makes nested constant-trip loops fail unwinding assertions and re-executes post-loop code.)
    succ = {}
    for b, c in code.items():
        ss = []
        for s_ in c:
            if isinstance(s_, tuple):
                if s_[0] == 'BR': ss.append(s_[1])
                elif s_[0] == 'CBR': ss += [s_[2], s_[3]]
                elif s_[0] == 'SW': ss += [tg for (cv, tg) in s_[3]] + [s_[2]]
        succ[b] = [x for x in ss if x in code]
    # back edges = edges to a block that is on the DFS stack
    seen = set(); onstack = set(); back = set()
    stack = [(first, iter(succ[first]))]; seen.add(first); onstack.add(first)
    while stack:
        b, it = stack[-1]
        for nx in it:
            if nx in onstack: back.add((b, nx))
            elif nx not in seen:
                seen.add(nx); onstack.add(nx); stack.append((nx, iter(succ[nx]))); break
        else:
            onstack.discard(b); stack.pop()
    # topological order of the remaining DAG that stays as close as possible to LLVM's textual order (which CBMC's
    # path merging likes): Kahn's algorithm with the original position as priority
    import heapq
    pos = {b: i for i, b in enumerate(code)}
    indeg = {b: 0 for b in code}
    for b in code:
        for nx in set(succ[b]):
            if (b, nx) not in back and b in seen: indeg[nx] += 1
    heap = [pos[b] for b in code if indeg[b] == 0]
    heapq.heapify(heap); names = list(code); order = []
    while heap:
        b = names[heapq.heappop(heap)]; order.append(b)
        if b not in seen: continue
        for nx in set(succ[b]):
            if (b, nx) in back: continue
            indeg[nx] -= 1
            if indeg[nx] == 0: heapq.heappush(heap, pos[nx])
    order += [b for b in code if b not in order]
    if os.environ.get('IR2C_RPO', '1') != '1': order = list(code.keys())
    for b in order:
        c = code[b]
        emit(' %s: ;' % lbl(b))
        for s in c:
            if isinstance(s, tuple):
                if s[0] == 'BR': emit('  { %s }' % edge(b, s[1]))
                elif s[0] == 'CBR': emit('  if (%s) { %s } else { %s }' % (s[1], edge(b, s[2]), edge(b, s[3])))
                elif s[0] == 'SW':
                    emit('  switch (%s) {' % s[1])
                    for (cv, tg) in s[3]: emit('    case %s: { %s }' % (re.sub(r'^\(\((\w+)\)(0x[0-9a-f]+)ULL\)$', r'\2', cv), edge(b, tg)))
                    emit('    default: { %s }' % edge(b, s[2])); emit('  }')
            else: emit('  ' + s)
    emit('}\n')

def wide(t):
    b = t.bits
    if b == 1: return 'uint8_t'
    if b in (8, 16, 32, 64): return 'uint%d_t' % b
    return 'UBV(%d)' % b
def swide(t):
    b = t.bits
    if b in (8, 16, 32, 64): return 'int%d_t' % b
    return 'SBV(%d)' % b
def scast(t, v): return '(%s)%s' % (swide(t), v)
def fproto(cname, rt, args, anames, va):
    a = ', '.join(decl(t, n) for t, n in zip(args, anames)) or ('void' if not va else '')
    if va: a += ', ...' if a else '...'
    return '%s %s(%s)' % (ctype(rt), cname, a)

UBSAN_KINDS = {0: 'add_overflow', 1: 'builtin_unreachable', 3: 'divrem_overflow', 5: 'float_cast_overflow', 7: 'implicit_conversion',
  8: 'invalid_builtin', 10: 'load_invalid_value', 11: 'missing_return', 12: 'mul_overflow', 13: 'negate_overflow', 16: 'nonnull_arg', 17: 'nonnull_return',
  18: 'out_of_bounds', 19: 'pointer_overflow', 20: 'shift_out_of_bounds', 21: 'sub_overflow', 22: 'type_mismatch', 23: 'alignment_assumption', 24: 'vla_bound_not_positive'}
CURFN = ['']
LASTPARAM = [None]
SYMLEN_MEM = []
DEFINED_FUNCS = set()
STRSETS = {}
def str_of(e):
    m = re.search(r'&(_[A-Za-z0-9_]+)', e)
    return gstrings.get(m.group(1)) if m else None
def str_candidates(e, depth=0):
    t = str_of(e)
    if t is not None: return [(e, t)]
    if e in STRSETS and depth < 4:
        r = []
        for x in STRSETS[e]:
            c = str_candidates(x, depth + 1)
            if c is None: return None
            r += c
        return r
    return None
def call_expr(callee, rt, fty, cargs, atypes, loc, c):
    if callee[0] == '@':
        n = callee[1:].strip('"')
        if n.startswith('llvm.'):
            if n.startswith('llvm.lifetime') or n.startswith('llvm.experimental.noalias') or n.startswith('llvm.dbg') or n.startswith('llvm.prefetch'): return None
            if n.startswith('llvm.assume'): return 'VERIF_LLVM_ASSUME(%s)' % cargs[0]
            if n.startswith('llvm.mem'):
                # CBMC's built-in models are exact for a symbolic length only when the destination is a byte array (or malloc'ed
                # memory); such call sites are listed in the report (-> evidence) so that a reviewer can see which units rely on it
                if not re.match(r'^\(\(uint64_t\)0x[0-9a-f]+ULL\)$', cargs[2]): SYMLEN_MEM.append(CURFN[0])
            # symbolic length: a macro that the prelude maps to the libc name, or (Unit(cbmc_defines=['VERIF_MEM_LOOPS'])) to a byte loop
            symlen = n.startswith('llvm.mem') and not re.match(r'^\(\(uint64_t\)0x[0-9a-f]+ULL\)$', cargs[2])
            # (_C: constant length; mapped to the libc name unless VERIF_MEM_LOOPS_ALL is defined as well)
            if n.startswith('llvm.memcpy'): return '%s(%s, %s, %s)' % ('VERIF_MEMCPY_N' if symlen else 'VERIF_MEMCPY_C', cargs[0], cargs[1], cargs[2])
            if n.startswith('llvm.memmove'): return '%s(%s, %s, %s)' % ('VERIF_MEMMOVE_N' if symlen else 'VERIF_MEMMOVE_C', cargs[0], cargs[1], cargs[2])
            if n.startswith('llvm.memset'): return '%s(%s, %s, %s)' % ('VERIF_MEMSET_N' if symlen else 'VERIF_MEMSET_C', cargs[0], cargs[1], cargs[2])
            m = re.match(r'llvm\.(cttz|ctlz|ctpop|bswap|umax|umin|smax|smin|fshl|fshr|usub\.sat|uadd\.sat|abs)\.i(\d+)', n)
            if m:
                return 'I_%s_%s(%s)' % (m.group(1).replace('.', '_'), m.group(2), ', '.join(a for a in cargs if a is not None)[:10**6])
            m = re.match(r'llvm\.(uadd|usub|umul|sadd|ssub|smul)\.with\.overflow\.i(\d+)', n)
            if m:
                b = int(m.group(2)); key = tstr(rt); ctype(rt)
                return 'I_%s_ov_%d_%s(%s, %s)' % (m.group(1), b, lit_names[key], cargs[0], cargs[1])
            if n.startswith('llvm.ubsantrap'):
                m = re.search(r'0x([0-9a-f]+)', cargs[0]); k = int(m.group(1), 16) if m else -1
                return 'VERIF_TRAP("ubsan:%s in %s")' % (UBSAN_KINDS.get(k, str(k)), CURFN[0][:80])
            if n == 'llvm.trap': return 'VERIF_TRAP("llvm.trap in %s")' % CURFN[0][:80]
            # varargs: the only consumer of a va_list in asmjit is vsnprintf, reached from the variadic function through a
            # pointer to the list. The list is kept in one global (VERIF_VA_CUR, see verif_prelude.h / tools/verif_printf.c);
            # va_copy/va_end on LLVM's own list object are no-ops and vsnprintf is routed to verif_vsnprintf.
            if n.startswith('llvm.va_start') and LASTPARAM[0]: return 'va_start(VERIF_VA_CUR, %s)' % LASTPARAM[0]
            if n.startswith('llvm.va_end') or n.startswith('llvm.va_copy'): return None
            if n.startswith('llvm.va_') : return '__CPROVER_assert(0, "va")'
            if n.startswith('llvm.x86.rdtsc'): return 'nondet_u64()'
            if n.startswith('llvm.fmuladd'): return '(%s * %s + %s)' % (cargs[0], cargs[1], cargs[2])
            raise Exception('intrinsic ' + n)
        f = cid(callee)
        if f == '__CPROVER_assert':
            cands = str_candidates(cargs[1])
            if not cands: raise Exception('__CPROVER_assert with a non-constant message')
            if len(cands) == 1: return '__CPROVER_assert(%s, "%s")' % (cargs[0], cands[0][1])
            chain = ''
            for (e, t) in cands:
                chain += 'if ((void*)%s == (void*)%s) __CPROVER_assert(%s, "%s"); else ' % (cargs[1], e, cargs[0], t)
            return '{ %s __CPROVER_assert(0, "unresolved assertion message"); }' % chain
        if 'DebugUtils' in f and 'assertion_failure' in f:
            m = re.search(r'&(_[A-Za-z0-9_]+)', cargs[2]); txt = '?'
            if m and m.group(1) in gstrings: txt = gstrings[m.group(1)]
            m = re.search(r'&(_[A-Za-z0-9_]+)', cargs[0]); fil = '?'
            if m and m.group(1) in gstrings_raw: fil = gstrings_raw[m.group(1)].split('/')[-1]
            m = re.search(r'0x([0-9a-f]+)', cargs[1]); line = int(m.group(1), 16) if m else 0
            return 'VERIF_ASMJIT_ASSERT("ASMJIT_ASSERT(%s) at %s:%d")' % (txt[:100], fil, line)
        args = ', '.join(cargs)
        if f == 'bcmp': f = 'memcmp'
        if f == 'vsnprintf': return 'verif_vsnprintf(%s)' % ', '.join(cargs[:3])
        if f == 'snprintf': f = 'verif_snprintf'
        # fault injection at the libc level: when the harness defines verif_malloc / verif_realloc / verif_free, every other
        # function's call to the libc function is routed through it (natively the same is done with ld --wrap)
        if f in ('malloc', 'realloc', 'free', 'calloc') and ('verif_' + f) in DEFINED_FUNCS and not CURFN[0].startswith('verif_'): f = 'verif_' + f
        return '%s(%s)' % (f, args)
    # indirect
    ft = fty or T('func', ret=rt, args=atypes, va=False)
    return '((%s)%s)(%s)' % (fnptr(ft, ''), loc(callee), ', '.join(cargs))

DEFINED_FUNCS.update(cid(f[0]) for f in funcs if f[5] is not None)
# pre-register literal/array types used everywhere by translating function bodies first into buffer
body_out = []
errors = []
for (name, rt, args, names, va, body) in funcs:
    if body is None: continue
    if cid(name) in nobody or name[1:].strip('"') in nobody: continue
    save = len(out)
    try:
        translate_func(name, rt, args, names, va, body)
    except Exception as e:
        del out[save:]
        if os.environ.get('IR2C_DEBUG'):
            import traceback; traceback.print_exc()
        errors.append((name, str(e)))
        emit(fproto(cid(name), rt, args, ['a%d' % k for k in range(len(args))], va) + ' { __CPROVER_assert(0, "untranslated function reached"); __CPROVER_assume(0); }\n')
defined = set()
body_out = out; out = []

# globals
# CBMC 6.11 returns unconstrained values for a symbolic-offset read through a pointer cast to a different aggregate type
# when the object contains array members (byte_extract lowering). LLVM gives array constants with zero runs an anonymous
# struct type <{ T, T, [k x T] }> and accesses them through `bitcast (... to [N x T]*)`. Such globals are declared with
# the array type they are accessed as, so that the accesses are typed.
def split_top(s):
    parts, depth, cur = [], 0, ''
    for ch in s:
        if ch in '([{<': depth += 1
        if ch in ')]}>': depth -= 1
        if ch == ',' and depth == 0: parts.append(cur.strip()); cur = ''
        else: cur += ch
    if cur.strip(): parts.append(cur.strip())
    return parts
def reshape_global(gname_ir, t, init):
    if t.kind != 'lit' or not t.elems or init is None: return None
    X = None; n = 0
    for e in t.elems:
        ex = e.of if e.kind == 'arr' else e
        if X is None: X = ex
        if tstr(ex) != tstr(X): return None
        n += e.n if e.kind == 'arr' else 1
    if X.kind not in ('named', 'lit', 'int', 'ptr'): return None
    # every other mention of the global must be a bitcast to [n x X]*
    pat = re.escape(gname_ir)
    uses = [m.start() for m in re.finditer(pat + r'(?![-A-Za-z0-9_.$])', src)]
    want = '* %s to [%d x %s]*)' % (gname_ir, n, tstr(X).replace(',', ', '))
    ok_uses = 0
    for u in uses:
        if src.startswith(gname_ir + ' = ', u) and (u == 0 or src[u - 1] == '\n'): continue
        tail = src[u:u + len(gname_ir) + 400]
        m = re.match(pat + r' to \[(\d+) x ', tail)
        if not m or int(m.group(1)) != n: return None
        ok_uses += 1
    if not ok_uses: return None
    p = P(init)
    if p.eat('zeroinitializer'): return T('arr', n=n, of=X), '{0}'
    op = '<{' if p.peek('<{') else '{'
    p.expect(op); vals = []
    close = '}>' if op == '<{' else '}'
    while True:
        et = ptype(p); v = pvalue(p, et, lambda nn: nn)
        if et.kind == 'arr':
            if v in ('{0}',): vals += [zero(X) if X.kind in ('int', 'ptr') else '{0}'] * et.n
            else:
                inner = v.strip()
                if not (inner.startswith('{{') and inner.endswith('}}')): return None
                vals += split_top(inner[2:-2])
        else: vals.append(v)
        if p.eat(close): break
        p.expect(',')
    if len(vals) != n: return None
    return T('arr', n=n, of=X), '{{' + ','.join(vals) + '}}'

gl_out = []
reshaped = []
for gi, (g, t, init, const) in enumerate(globals_):
    try:
        rs = reshape_global(GLOBAL_IR_NAME[g], t, init)
    except Exception as e:
        rs = None
    if rs:
        t, v = rs; reshaped.append(g)
        gl_out.append('%s = %s;' % (decl(t, g), v)); continue
    d = decl(t, g)
    if init is None or init == '':
        gl_out.append('extern %s;' % d); continue
    try:
        v = pvalue(P(init), t, lambda n: n)
    except Exception as e:
        errors.append((g, 'init: ' + str(e))); gl_out.append('%s;' % d); continue
    gl_out.append('%s%s = %s;' % ('const ' if const and os.environ.get('IR2C_CONST', '1') == '1' else '', d, v))

hdr = ['#include "verif_prelude.h"', 'uint64_t nondet_u64(void);']
# struct forward decls + defs in dependency order
for n, t in named.items(): hdr.append('struct %s;' % cid(n))
emitted = set()
alldefs = {}
for n, t in named.items():
    if t is None: continue
    body = ''.join('  %s;\n' % fdecl(e, 'f%d' % i, t.packed) for i, e in enumerate(t.elems))
    alldefs['struct ' + cid(n)] = ('struct %s {\n%s}%s;' % (cid(n), body or '  char _e;\n', ' __attribute__((packed))' if t.packed else ''), t.elems)
# literal and array defs were registered lazily during ctype() calls; force registration for named struct members
for n, t in list(named.items()):
    if t is not None:
        for e in t.elems: ctype(e)
for n, t in named.items(): hdr.append('struct %s;' % cid(n))
changed = True
while changed:
    changed = False
    for (d, elems) in list(lit_defs):
        for e in elems:
            before = len(lit_defs); ctype(e)
            if len(lit_defs) != before: changed = True
for (d, elems) in lit_defs:
    nm = re.match(r'struct (\w+)', d).group(0)
    alldefs[nm] = (d, elems)
def deps(elems):
    r = []
    for e in elems:
        while e.kind in ('arr', 'vec') and False: e = e.of
        if e.kind in ('named', 'lit', 'arr', 'vec'): r.append(ctype(e))
    return r
def emit_def(nm):
    if nm in emitted or nm not in alldefs: return
    emitted.add(nm)
    d, elems = alldefs[nm]
    for dp in deps(elems): emit_def(dp)
    hdr.append(d)
for nm in list(alldefs): hdr.insert(hdr.index('uint64_t nondet_u64(void);') + 1, nm + ';')
hdr.append('/*FNTYPEDEFS*/')
for nm in list(alldefs): emit_def(nm)
# intrinsics
hdr.append('''
#define DEF_COMMON(B) \\
static inline uint##B##_t I_umax_##B(uint##B##_t a, uint##B##_t b){ return a>b?a:b; } \\
static inline uint##B##_t I_umin_##B(uint##B##_t a, uint##B##_t b){ return a<b?a:b; } \\
static inline uint##B##_t I_smax_##B(uint##B##_t a, uint##B##_t b){ return (int##B##_t)a>(int##B##_t)b?a:b; } \\
static inline uint##B##_t I_smin_##B(uint##B##_t a, uint##B##_t b){ return (int##B##_t)a<(int##B##_t)b?a:b; } \\
static inline uint##B##_t I_abs_##B(uint##B##_t a, _Bool u){ return ((int##B##_t)a < 0) ? (uint##B##_t)(0 - a) : a; } \\
static inline uint##B##_t I_fshl_##B(uint##B##_t a, uint##B##_t b, uint##B##_t s){ s%=B; return s? (uint##B##_t)((a<<s)|(b>>(B-s))) : a; } \\
static inline uint##B##_t I_fshr_##B(uint##B##_t a, uint##B##_t b, uint##B##_t s){ s%=B; return s? (uint##B##_t)((a<<(B-s))|(b>>s)) : b; } \\
static inline uint##B##_t I_usub_sat_##B(uint##B##_t a, uint##B##_t b){ return a>b?(uint##B##_t)(a-b):0; } \\
static inline uint##B##_t I_uadd_sat_##B(uint##B##_t a, uint##B##_t b){ uint##B##_t r=(uint##B##_t)(a+b); return r<a?(uint##B##_t)~(uint##B##_t)0:r; }
#define DEF_CT(B) DEF_COMMON(B) \\
static inline uint##B##_t I_cttz_##B(uint##B##_t x, _Bool u){ if(!x) return B; uint##B##_t n=0; while(!(x&1)){x>>=1;n++;} return n; } \\
static inline uint##B##_t I_ctlz_##B(uint##B##_t x, _Bool u){ if(!x) return B; uint##B##_t n=0; while(!(x>>(B-1))){x<<=1;n++;} return n; } \\
static inline uint##B##_t I_ctpop_##B(uint##B##_t x){ uint##B##_t n=0; for(int i=0;i<B;i++) n+=(x>>i)&1; return n; }
DEF_CT(8) DEF_CT(16)
#define DEF_CT2(B, SUF) DEF_COMMON(B) \\
static inline uint##B##_t I_cttz_##B(uint##B##_t x, _Bool u){ return x ? (uint##B##_t)__builtin_ctz##SUF(x) : B; } \\
static inline uint##B##_t I_ctlz_##B(uint##B##_t x, _Bool u){ return x ? (uint##B##_t)__builtin_clz##SUF(x) : B; } \\
static inline uint##B##_t I_ctpop_##B(uint##B##_t x){ return (uint##B##_t)__builtin_popcount##SUF(x); }
DEF_CT2(32,) DEF_CT2(64,ll)
static inline double BC_u64_f64(uint64_t v){ union { uint64_t i; double d; } u; u.i = v; return u.d; }
static inline uint64_t BC_f64_u64(double v){ union { uint64_t i; double d; } u; u.d = v; return u.i; }
static inline float BC_u32_f32(uint32_t v){ union { uint32_t i; float d; } u; u.i = v; return u.d; }
static inline uint32_t BC_f32_u32(float v){ union { uint32_t i; float d; } u; u.d = v; return u.i; }
static inline uint64_t I_bswap_64(uint64_t x){ return __builtin_bswap64(x); }
static inline uint32_t I_bswap_32(uint32_t x){ return __builtin_bswap32(x); }
static inline uint16_t I_bswap_16(uint16_t x){ return (uint16_t)((x<<8)|(x>>8)); }
''')
for key, nm in lit_names.items():
    m = re.match(r'\{i(\d+),i1\}', key)
    if m and int(m.group(1)) in (32, 64):
        b = int(m.group(1))
        hdr.append('static inline struct %s I_uadd_ov_%d_%s(uint%d_t a, uint%d_t b){ struct %s r; r.f0=a+b; r.f1=r.f0<a; return r; }' % (nm, b, nm, b, b, nm))
        hdr.append('static inline struct %s I_usub_ov_%d_%s(uint%d_t a, uint%d_t b){ struct %s r; r.f0=a-b; r.f1=a<b; return r; }' % (nm, b, nm, b, b, nm))
        hdr.append('static inline struct %s I_umul_ov_%d_%s(uint%d_t a, uint%d_t b){ struct %s r; r.f0=a*b; r.f1=(a!=0 && r.f0/a!=b); return r; }' % (nm, b, nm, b, b, nm))
        hdr.append('static inline struct %s I_sadd_ov_%d_%s(uint%d_t a, uint%d_t b){ struct %s r; int%d_t t; r.f1=__builtin_add_overflow((int%d_t)a,(int%d_t)b,&t); r.f0=(uint%d_t)t; return r; }' % (nm, b, nm, b, b, nm, b, b, b, b))
        hdr.append('static inline struct %s I_ssub_ov_%d_%s(uint%d_t a, uint%d_t b){ struct %s r; int%d_t t; r.f1=__builtin_sub_overflow((int%d_t)a,(int%d_t)b,&t); r.f0=(uint%d_t)t; return r; }' % (nm, b, nm, b, b, nm, b, b, b, b))
        hdr.append('static inline struct %s I_smul_ov_%d_%s(uint%d_t a, uint%d_t b){ struct %s r; int%d_t t; r.f1=__builtin_mul_overflow((int%d_t)a,(int%d_t)b,&t); r.f0=(uint%d_t)t; return r; }' % (nm, b, nm, b, b, nm, b, b, b, b))
# prototypes
protos = []
SKIP = {'bcmp', 'strtol', 'strtoul', 'strtoll', 'strtoull', 'getenv', 'snprintf', 'vsnprintf', 'sprintf', 'printf', 'fprintf', 'fputs', 'puts', 'fwrite', 'fflush',
        'strchr', 'strncmp', 'strcpy', 'strncpy', 'strcat', 'atoi', 'qsort', 'memcpy', 'memset', 'memmove', 'malloc', 'free', 'realloc', 'strlen', 'memcmp', 'strcmp', 'calloc', 'abort', 'memchr', 'exit',
        '__CPROVER_assert', '__CPROVER_assume', 'nondet_u64', 'nondet_u32', 'nondet_u16', 'nondet_u8', 'nondet_bool', 'verif_observe'}
for (name, rt, args, names, va, body) in funcs:
    n = name[1:].strip('"')
    if n.startswith('llvm.') or n in SKIP: continue
    protos.append(fproto(cid(name), rt, args, ['a%d' % k for k in range(len(args))], va) + ';')
ti = hdr.index('/*FNTYPEDEFS*/')
# typedefs may be created late (during prototypes); generate prototypes first
_protos_text = '\n'.join(protos)
hdr[ti] = '\n'.join(v[1] for v in fn_typedefs.values())
open(sys.argv[2], 'w').write('\n'.join(hdr) + '\n' + '\n'.join(protos) + '\n' + '\n'.join(gl_out) + '\n' + '\n'.join(body_out) + '\n')
if ARGS.report:
    import json
    json.dump({'defined': [f[0][1:].strip('"') for f in funcs if f[5] is not None and not (cid(f[0]) in nobody or f[0][1:].strip('"') in nobody)],
               'declared': [f[0][1:].strip('"') for f in funcs if f[5] is None],
               'errors': [[a, b] for a, b in errors], 'reshaped_globals': reshaped, 'symbolic_length_mem_calls': sorted(set(SYMLEN_MEM))}, open(ARGS.report, 'w'))
for e in errors: print('ERR', e, file=sys.stderr)
print('functions: %d translated, %d errors' % (sum(1 for f in funcs if f[5] is not None), len(errors)), file=sys.stderr)
