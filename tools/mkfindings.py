#!/usr/bin/env python3
"""Prints markdown tables of repaired and open findings from known_findings.jsonl (for DESIGN.md 6.6)."""
import json, os, re, subprocess
V = os.path.dirname(os.path.dirname(os.path.abspath(__file__)))
fixed, open_ = [], []
for ln in open(os.path.join(V, 'known_findings.jsonl')):
    ln = ln.strip()
    if ln.startswith('fixed:'):
        m = re.match(r'fixed:\s*property=(\S+)\s+(\S+)\s+(\S+)\s+(.*)$', ln)
        fixed.append(m.groups())
    elif ln.startswith('{'):
        open_.append(json.loads(ln))
print('**Repaired in /repo** (one `fix:` commit each; `fixed:` lines in known_findings.jsonl suppress nothing):\n')
print('| id | property | commit | what failed |\n|---|---|---|---|')
for p, c, i, w in fixed:
    if not re.match(r'^[A-Z]+[0-9]+[A-Za-z]*$', i): w = i + ' ' + w; i = '-'
    print('| %s | %s | %s | %s |' % (i, p, c, w.replace('|', '/')[:260]))
print('\n**Open known findings** (the main harness excludes the region under `#if KF_<id>`, a companion harness confined to it must fail only the listed assertions):\n')
print('| id | property | companion harness | what fails |\n|---|---|---|---|')
for d in open_:
    print('| %s | %s | %s | %s |' % (d['id'], d['property'], d.get('harness', ''), d['what'].replace('|', '/')[:300]))
