#!/usr/bin/env python3
"""Regenerates MANIFEST.json from the table below (kept in one place so the file is always schema-valid)."""
import json, os
V = os.path.dirname(os.path.dirname(os.path.abspath(__file__)))
TRUST = ('clang 14 front end + opt -O1 (IR is what is executed; UBSan traps inserted before optimisation are obligations); tools/ir2c.py '
         '(validated each run: real code vs generated C on identical random nondet streams); CBMC 6.11 + CaDiCaL; stubs and oracles listed in the evidence file')
CHECKS = {
  'C17': dict(text='Bounded symbolic execution of the real offset/immediate codecs: for every format geometry the back ends create and all 2^64 offsets / immediates the SAT solver shows accept<=>representable, decode(field)==value, surrounding bits untouched; AArch64 logical, add/sub, FP8, byte-mask, move-wide and element-index encoders are checked sound and complete against ARM ARM reference decoders.',
              ref='3/C17', note='Formats with no producer in this tree (Thumb/A32) are outside; discarded LSBs bounded to 0..16. ' + TRUST),
}
CHECKS.update({
  'C01': dict(text='Bounded symbolic execution of the real x86::Assembler::_emit with strict validation: per (instruction, operand-kind signature, mode) harness generated from db/isa_x86.json the solver shows that for every register id of every operand class, every base/index/scale/disp32/segment/abs/RIP memory form, every immediate of the form\'s width and every {k}{z}, accepted operands produce bytes that an independent form-directed reference decoder (SDM prefix/REX/VEX/EVEX/ModRM/SIB/disp8*N rules) decodes to exactly that instruction and those operands, with length = cursor advance <= 15. The family (about 10k harnesses) is rotated by seed; each harness verdict is over all operand values.',
              ref='3/C01', note='Records not generated (implicit operands, APX, x87 st(i), VSIB, broadcast/{er}/{sae} decorations, far pointers, moffs) are counted in checks/C01/forms_gen.json; DB errata against the SDM are listed in gen_forms.py; 16-bit addressing and labels are outside. Known findings D10/D11 are split into companion harnesses. ' + TRUST),
  'C08': dict(text='Capture then replay is the identity on emitter calls: (a) the real BaseBuilder::_emit stores any id/options/extra register/0..6 arbitrary operands/comment verbatim in one node and clears one-shot state as an assembler does; (b) the real serialize_to replays typed nodes of every kind as the corresponding emitter call with exactly the node fields, in list order (recording destination emitter); (c) each list edit (add_node/add_after/add_before/remove_node/remove_nodes) from well-formed lists of up to 4 nodes yields the edited sequence with symmetric links, right first/last/cursor/active flags, and serialize_to visits exactly it.',
              ref='3/C08', note='Byte equality of whole programs follows from (a)-(c) plus determinism of the shared back end and is not re-proved; Compiler func/invoke nodes and const-pool nodes are outside; list shapes and operand counts are concrete per harness (values symbolic); Arena replaced by a malloc stub. ' + TRUST),
  'C14': dict(text='Bounded symbolic execution of the real x86 validator + encoder for representative instructions of the encoding classes with arbitrary input: three operands each symbolic over {none, register of any type and any 32-bit id, memory with every signature bit / base / index / 64-bit offset free, any 64-bit immediate, label with any id}, every defined option bit, arbitrary extra register, in both modes. The solver shows: no UBSan trap, no ASMJIT_ASSERT, no invalid dereference; an error leaves cursor, section size, fixup/relocation/address-table counts untouched, clears one-shot state and reports exactly once; success appends 1..15 bytes.',
              ref='3/C14', note='Instruction id fixed per harness (32 ids x 2 modes, rotated by seed in quick); operands 4..6 none; throwing error handlers and a64 are outside; CodeHolder fixup/reloc services are counting stubs; known finding D4 (16-byte instruction) is confined to a companion harness. ' + TRUST),
})
CHECKS.update({
  'C02': dict(text='Bounded symbolic execution of the real a64::Assembler::_emit: hand-written harnesses for the main GP and SIMD encoding classes plus a family generated from db/isa_aarch64.json (2152 of 2390 implementable forms) check, for every register id 0..63 per operand (incl. SP/ZR and out-of-range ids), every arrangement/element index, every shift/extend kind and amount, immediates over 2^64 and offsets over 2^32, that an accepted call appends exactly the word(s) whose fixed bits match the database template and whose fields equal ARM-ARM functions of the operands, and that unencodable operands are refused with nothing appended.',
              ref='3/C02', note='Forms not generated are listed with reasons in checks/C02/forms_index.py; 102 database errata against the ARM ARM are corrected in gen_forms.py; labels/literals are C03; fifteen genuine defects (C02A-C02O) are confined to companion harnesses as known findings or fixed. ' + TRUST),
  'C13': dict(text='The C01 form family compiled as agreement checks: for the same symbolic operand space the real encoder is executed twice, with strict validation on and off, and the solver shows equal acceptance, equal length and equal bytes; the both-accept witness must be reachable for every form the pinned release accepts (vendored list), so a form that silently stops being accepted makes the check fail.',
              ref='3/C13', note='Name round trip (inst_id_to_string/string_to_inst_id) did not reach a verdict within budget and is outside; near-miss mutations are covered only through C14; AArch64 has no operand validator. Family rotated by seed. ' + TRUST),
})
CHECKS.update({
  'C12': dict(text='Database-agreement half of the property: for every harness of the C01 form family (symbolic register ids, memory forms, {k}{z}) the real InstAPI::query_rw_info must report per explicit operand exactly the read/write access of the database record (R:/W:/X:/w:/x:), read access of a merge-masked destination, write/zero-extension over all 8 bytes for 32-bit GP destinations in 64-bit mode, no extension for partial 8/16-bit writes, and the CPU status flags of the record\'s io field.',
              ref='6.3', note='The hardware-semantics half (executing instructions on the host) is outside: it is not solver-based. Same-register idioms, implicit operands, register-or-memory substitution, CPU features and consecutive-register lead counts are outside. The database (with the listed errata) is the oracle. Family rotated by seed. ' + TRUST),
  'C15': dict(text='Fault schedules are symbolic: every arena request (malloc-backed arena stub), every malloc/realloc may fail independently, which covers the k-th request failing for every k and all multi-failure patterns in one query per workload. Workloads: BaseBuilder::_emit and node-creating calls, x86 _emit growing the code buffer through the real CodeHolder::grow_buffer (plus fragments added by the owners of the container/holder/allocator checks). Asserted: only kOutOfMemory is reported, the failed call leaves lists/buffers/pointers/one-shot state as they were, and a retry with memory available produces what a failure-free run produces.',
              ref='6.3', note='Whole compile pipelines (register allocation) are outside; Arena replaced by include/arena_stub.h; libc allocation routed through include/libc_fault.h. ' + TRUST),
  'C16': dict(text='(a) The real x86::Assembler on_attach/on_detach/on_reinit handlers: an emitter with arbitrary one-shot state and cursor, detached from a holder of either mode and attached to another (or re-initialised), is field-by-field equal to a freshly constructed emitter attached to the same holder. (b) Logger independence on the C01 form family: the real _emit with and without a logger attached returns the same verdict and the same bytes, clears one-shot state, and logs an accepted instruction exactly once.',
              ref='6.3', note='CodeHolder::reset/reinit themselves, Builder/Compiler attach events and Compiler reuse across functions are outside; formatter/helper function-pointer tables and the instruction logger are stubs. ' + TRUST),
})
NOT_APPLICABLE = {
}
PENDING = 'solver-based harness not built yet in this round (see DESIGN.md section 3 for the plan)'
def main():
    props = [json.loads(l)['id'] for l in open(os.path.join(V, 'properties.jsonl'))]
    checks = []
    for pid in props:
        if pid not in CHECKS: continue
        c = CHECKS[pid]
        checks.append(dict(property_id=pid, quick_cmd='./check %s --tier quick' % pid, thorough_cmd='./check %s --tier thorough' % pid,
                           evidence_file='evidence/%s.json' % pid, replay_cmd_template='./check %s --replay {path}' % pid, engine='ir2c-cbmc',
                           level_claimed=dict(category='model_checking', text=c['text'], design_ref=c['ref']), level_note=c['note'],
                           technique='bounded symbolic execution of the real C++ (clang IR -> C -> CBMC/SAT), counterexamples replayed natively'))
    na = [dict(property_id=p, reason=NOT_APPLICABLE.get(p, PENDING)) for p in props if p not in CHECKS]
    m = dict(version=1, setup_cmd='true',
             hooks=dict(guard='ASMJIT_VERIF', enable='checks compile /repo sources with -DASMJIT_VERIF (clang++-14, no build of the library itself is needed)',
                        baseline_off_cmd='cmake --build /repo/_build && ctest --test-dir /repo/_build -j8 --timeout 900', source_commits=[], add_only=True),
             engines=[dict(name='ir2c-cbmc', path='tools/vlib.py', serves_properties=sorted(CHECKS),
                           kind_free_text='clang++-14 -> LLVM IR -> tools/ir2c.py -> goto-cc -> cbmc (bounded symbolic execution, SAT); native twins for translator validation and replay')],
             checks=checks, not_applicable=na,
             notes='exit codes: 0 = held within bounds; 1 = VIOLATION (replayed against the real code); 2 = inconclusive/broken (timeout, unwinding assertion, vacuous witness, translator mismatch) - never reported as success')
    json.dump(m, open(os.path.join(V, 'MANIFEST.json'), 'w'), indent=1)
    print('checks:', [c['property_id'] for c in checks], 'not_applicable:', len(na))
main()
