#!/usr/bin/env python3
"""Regenerates MANIFEST.json from the table below (kept in one place so the file is always schema-valid)."""
import json, os
V = os.path.dirname(os.path.dirname(os.path.abspath(__file__)))
TRUST = ('clang 14 front end + opt -O1 (IR is what is executed; UBSan traps inserted before optimisation are obligations); tools/ir2c.py '
         '(validated each run: real code vs generated C on identical random nondet streams); CBMC 6.11 + CaDiCaL; stubs and oracles listed in the evidence file')
CHECKS = {
  'C17': dict(text='Bounded symbolic execution of the real offset/immediate codecs: for every format geometry the back ends create and all 2^64 offsets / immediates the SAT solver shows accept<=>representable, decode(field)==value, surrounding bits untouched; AArch64 logical, add/sub, FP8, byte-mask, move-wide and element-index encoders are checked sound and complete against ARM ARM reference decoders.',
              ref='3/C17', note='Formats with no producer in this tree (Thumb/A32) are outside; discarded LSBs bounded to 0..16. ' + TRUST),
}
NOT_APPLICABLE = {
}
PENDING = 'solver-based harness not built yet in this round (see DESIGN.md section 3 for the plan)'
def main():
    props = [json.loads(l)['id'] for l in open(os.path.join(V, 'properties.jsonl'))]
    checks = []
    for pid in props:
        if pid not in CHECKS: continue
        c = CHECKS[pid]
        checks.append(dict(property_id=pid, quick_cmd='./check %s --tier quick' % pid, thorough_cmd='./check %s --tier thorough' % pid,
                           evidence_file='evidence/%s.json' % pid, replay_cmd_template='./check %s --replay {path}' % pid, engine='ir2c-cbmc',
                           level_claimed=dict(category='model_checking', text=c['text'], design_ref=c['ref']), level_note=c['note'],
                           technique='bounded symbolic execution of the real C++ (clang IR -> C -> CBMC/SAT), counterexamples replayed natively'))
    na = [dict(property_id=p, reason=NOT_APPLICABLE.get(p, PENDING)) for p in props if p not in CHECKS]
    m = dict(version=1, setup_cmd='true',
             hooks=dict(guard='ASMJIT_VERIF', enable='checks compile /repo sources with -DASMJIT_VERIF (clang++-14, no build of the library itself is needed)',
                        baseline_off_cmd='cmake --build /repo/_build && ctest --test-dir /repo/_build -j8 --timeout 900', source_commits=[], add_only=True),
             engines=[dict(name='ir2c-cbmc', path='tools/vlib.py', serves_properties=sorted(CHECKS),
                           kind_free_text='clang++-14 -> LLVM IR -> tools/ir2c.py -> goto-cc -> cbmc (bounded symbolic execution, SAT); native twins for translator validation and replay')],
             checks=checks, not_applicable=na,
             notes='exit codes: 0 = held within bounds; 1 = VIOLATION (replayed against the real code); 2 = inconclusive/broken (timeout, unwinding assertion, vacuous witness, translator mismatch) - never reported as success')
    json.dump(m, open(os.path.join(V, 'MANIFEST.json'), 'w'), indent=1)
    print('checks:', [c['property_id'] for c in checks], 'not_applicable:', len(na))
main()
