#!/usr/bin/env python3
"""Runner for the solver-based checks (see DESIGN.md section 1).

pipeline per unit (regenerated from /repo's working tree on every run):
  clang++ (front end only) -> llvm-link (--override harness) -> opt internalize,globaldce,-O1 -> llvm-dis
  -> ir2c.py -> goto-cc -> cbmc per harness          (the deciding step: SAT verdict per assertion)
  plus two native twins (real code / generated C) driven by identical nondet streams (translator validation, replay).
"""
import os, sys, re, json, time, shutil, subprocess, hashlib, threading, tempfile, atexit, importlib.util, signal
from concurrent.futures import ThreadPoolExecutor

VERIF = os.path.dirname(os.path.dirname(os.path.abspath(__file__)))
REPO = os.environ.get('VERIF_REPO', '/repo')
TOOLS = os.path.join(VERIF, 'tools')
INC = os.path.join(VERIF, 'include')

CXX_COMMON = ['-std=c++17', '-fno-exceptions', '-fno-rtti', '-fno-access-control', '-fno-threadsafe-statics',
              '-DASMJIT_STATIC', '-DASMJIT_VERIF', '-I' + REPO, '-I' + INC, '-w']
# Front end only (-disable-llvm-passes): overriding/stubbing happens at link time, *before* any inlining.
FE_FLAGS = ['-O1', '-Xclang', '-disable-llvm-passes', '-fno-pic', '-fno-pie', '-fno-vectorize', '-fno-slp-vectorize', '-fno-unroll-loops']
UBSAN_TRAP = ['-fsanitize=shift-exponent,signed-integer-overflow,integer-divide-by-zero,array-bounds', '-fsanitize-trap=all']
CBMC_BASE = ['--unwinding-assertions', '--drop-unused-functions', '--no-undefined-shift-check', '--no-signed-overflow-check',
             '--no-malloc-may-fail', '--no-pointer-primitive-check', '--no-built-in-assertions', '--sat-solver', 'cadical', '--verbosity', '8']
SLICE = ['--slice-formula']   # main runs only: a sliced trace would drop nondet values outside the cone and misalign the replay stream

EXIT_OK, EXIT_VIOLATION, EXIT_BROKEN = 0, 1, 2


class Unit:
    def __init__(self, name, harness, repo_units, debug_asserts=True, defines=(), nobody=(), extra_c=(), ubsan=True, cbmc_defines=(), wrap=(), prescreen=False, c_defines=()):
        self.name = name
        self.harness = list(harness)            # harness .cpp files (relative to the check dir); they override repo symbols
        self.repo_units = list(repo_units)      # asmjit .cpp files relative to /repo
        self.debug_asserts = debug_asserts      # ASMJIT_ASSERT enabled -> becomes a proof obligation
        self.defines = list(defines)
        self.nobody = list(nobody)              # functions whose translated bodies are dropped (body comes from extra_c)
        self.extra_c = list(extra_c)            # C stub files (relative to check dir or tools/) for cbmc + native xlat
        self.ubsan = ubsan
        self.prescreen = prescreen      # large generated families: run every harness natively on random operands first and add the
                                        # ones with a failing assertion to the solver's work list (selection heuristic only)
        self.c_defines = list(c_defines)         # -D<name> for the generated C and the extra_c files, for goto-cc AND the native xlat twin
        self.cbmc_defines = list(cbmc_defines)   # -D<name> for goto-cc only (e.g. VERIF_DIVC, see include/verif_prelude.h)
        self.wrap = list(wrap)              # libc symbols routed to the harness's verif_<sym> (ld --wrap natively, call renaming in ir2c)


class Harness:
    def __init__(self, unit, fn, unwind=8, tiers=('quick', 'thorough'), timeout=600, mem_gb=6, unwindset=None, flags=(),
                 known=None, bounds='', witnesses=None, validate_runs=400, rotate=None, thorough_unwind=None, object_bits=None, rotate_thorough=None):
        self.unit, self.fn, self.unwind, self.tiers = unit, fn, unwind, tuple(tiers)
        self.timeout, self.mem_gb, self.unwindset, self.flags = timeout, mem_gb, unwindset, list(flags)
        self.known = known            # id in known_findings.jsonl: this harness is confined to the finding's input region
        self.bounds = bounds
        self.witnesses = witnesses    # None = whatever WITNESS:* assertions exist (at least one required)
        self.validate_runs = validate_runs
        self.rotate = rotate          # (k, n): in quick tier run only when seed % n == k
        self.thorough_unwind = thorough_unwind
        self.object_bits = object_bits
        self.rotate_thorough = rotate_thorough   # (k, n): in thorough tier run only when seed % n == k


def log(*a):
    print(*a, flush=True)


class Work:
    def __init__(self, pid):
        base = os.environ.get('VERIF_WORK')
        if base:
            self.dir = os.path.join(base, pid); os.makedirs(self.dir, exist_ok=True); self.keep = True
        else:
            self.dir = tempfile.mkdtemp(prefix='asmjit-verif-%s-' % pid, dir='/var/tmp'); self.keep = False
        atexit.register(self.cleanup)

    def cleanup(self):
        if not self.keep:
            shutil.rmtree(self.dir, ignore_errors=True)


def run(cmd, timeout=None, mem_gb=None, cwd=None, stdin=None):
    """Run cmd under ulimit -v and /usr/bin/time. Returns dict(rc, out, err, wall, rss_mb, timed_out)."""
    pre = ''
    if mem_gb:
        pre = 'ulimit -v %d; ' % int(mem_gb * 1024 * 1024)
    full = ['bash', '-c', pre + 'exec /usr/bin/time -f "TIMEMEM %e %M" "$@"', 'x'] + list(cmd)
    t0 = time.time()
    p = subprocess.Popen(full, stdout=subprocess.PIPE, stderr=subprocess.PIPE, cwd=cwd, stdin=subprocess.DEVNULL, start_new_session=True)
    timed_out = False
    try:
        out, err = p.communicate(timeout=timeout)
    except subprocess.TimeoutExpired:
        timed_out = True
        try:
            os.killpg(p.pid, signal.SIGKILL)
        except Exception:
            pass
        out, err = p.communicate()
    wall = time.time() - t0
    out = out.decode('utf-8', 'replace'); err = err.decode('utf-8', 'replace')
    rss = 0
    m = re.search(r'TIMEMEM ([\d.]+) (\d+)\s*$', err)
    if m:
        rss = int(m.group(2)) // 1024
        err = err[:m.start()]
    return dict(rc=p.returncode, out=out, err=err, wall=wall, rss_mb=rss, timed_out=timed_out)


def must(cmd, what, timeout=900, cwd=None):
    r = run(cmd, timeout=timeout, cwd=cwd)
    if r['rc'] != 0 or r['timed_out']:
        raise BrokenCheck('%s failed (rc=%s%s)\n$ %s\n%s\n%s' % (what, r['rc'], ', timeout' if r['timed_out'] else '', ' '.join(cmd), r['out'][-3000:], r['err'][-6000:]))
    return r


class BrokenCheck(Exception):
    pass


def sha1(path):
    return hashlib.sha1(open(path, 'rb').read()).hexdigest()[:12]


class MemPool:
    """Admission control: at most `jobs` processes and `mem` GB of declared caps at a time."""
    def __init__(self, jobs, mem):
        self.jobs, self.mem = jobs, mem; self.cv = threading.Condition(); self.uj = 0; self.um = 0.0

    def acquire(self, m):
        m = min(m, self.mem)
        with self.cv:
            while self.uj >= self.jobs or self.um + m > self.mem + 1e-9:
                self.cv.wait()
            self.uj += 1; self.um += m
        return m

    def release(self, m):
        with self.cv:
            self.uj -= 1; self.um -= m; self.cv.notify_all()


def mem_budget_gb():
    if os.environ.get('VERIF_MEM_GB'):
        return float(os.environ['VERIF_MEM_GB'])
    try:
        for ln in open('/proc/meminfo'):
            if ln.startswith('MemAvailable'):
                return max(4.0, int(ln.split()[1]) / 1048576.0 - 6)
    except Exception:
        pass
    return 16.0


def load_known_findings():
    open_, fixed = {}, {}
    p = os.path.join(VERIF, 'known_findings.jsonl')
    if os.path.exists(p):
        for ln in open(p):
            ln = ln.strip()
            if not ln or ln.startswith('#'):
                continue
            if ln.startswith('fixed:'):
                m = re.match(r'fixed:\s*property=(\S+)\s+(\S+)\s+(.*)$', ln)
                if m:
                    fixed[m.group(2)] = dict(property=m.group(1), commit=m.group(2), what=m.group(3))
                continue
            d = json.loads(ln)
            open_[d['id']] = d
    # trial runs against a candidate repair (a scratch worktree given by VERIF_REPO): treat the listed findings as not listed
    for k in filter(None, os.environ.get('VERIF_KF_EXCLUDE', '').split(',')):
        open_.pop(k, None)
    return open_, fixed


class Check:
    def __init__(self, pid, checkdir, spec, tier, seed, only=None, jobs=None):
        self.pid, self.dir, self.spec, self.tier, self.seed, self.only = pid, checkdir, spec, tier, seed, only
        self.work = Work(pid)
        self.units = {u.name: u for u in spec.UNITS}
        self.known_open, self.known_fixed = load_known_findings()
        self.pool = MemPool(jobs or int(os.environ.get('VERIF_JOBS', os.cpu_count() or 4)), mem_budget_gb())
        self.built = {}
        self.t0 = time.time()
        self.notes = []

    # ------------------------------------------------------------------ build
    def src_path(self, rel):
        for base in (self.dir, TOOLS, INC, VERIF):
            p = os.path.join(base, rel)
            if os.path.exists(p):
                return p
        raise BrokenCheck('missing source ' + rel)

    def kf_defines(self):
        return ['-DKF_%s=1' % k for k, d in self.known_open.items()]

    def compile_bc(self, src, out, unit, flavour):
        flags = ['clang++-14'] + CXX_COMMON + FE_FLAGS + ['-I' + self.dir] + self.kf_defines() + ['-D' + d for d in unit.defines]
        flags += ['-DASMJIT_BUILD_DEBUG'] if unit.debug_asserts else ['-DNDEBUG', '-DASMJIT_BUILD_RELEASE']
        if flavour == 'cbmc':
            flags += ['-DVERIF_CBMC=1'] + (UBSAN_TRAP if unit.ubsan else [])
        elif flavour == 'native':
            flags += ['-DVERIF_NATIVE=1']
        elif flavour == 'san':
            flags += ['-DVERIF_NATIVE=1', '-fsanitize=address,undefined', '-fno-sanitize=vptr,function', '-g', '-fno-omit-frame-pointer']
        must(flags + ['-c', '-emit-llvm', src, '-o', out], 'clang++ ' + os.path.basename(src))

    def link_bc(self, unit, flavour, wd, entry_points):
        objs_repo, objs_h = [], []
        jobs = []
        for rel in unit.repo_units:
            o = os.path.join(wd, '%s.%s.bc' % (flavour, rel.replace('/', '_')))
            objs_repo.append(o); jobs.append((os.path.join(REPO, rel), o))
        for rel in unit.harness + ['verif_support.cpp']:
            o = os.path.join(wd, '%s.h_%s.bc' % (flavour, os.path.basename(rel)))
            objs_h.append(o); jobs.append((self.src_path(rel), o))
        with ThreadPoolExecutor(max_workers=8) as ex:
            list(ex.map(lambda j: self.compile_bc(j[0], j[1], unit, flavour), jobs))
        linked = os.path.join(wd, flavour + '.linked.bc')
        if objs_repo:
            cmd = ['llvm-link-14'] + objs_repo
            for o in objs_h:
                cmd += ['--override', o]
        else:
            cmd = ['llvm-link-14', objs_h[0]]
            for o in objs_h[1:]:
                cmd += ['--override', o]
        must(cmd + ['-o', linked], 'llvm-link')
        red = os.path.join(wd, flavour + '.red.bc')
        apifile = os.path.join(wd, flavour + '.api.txt')
        with open(apifile, 'w') as f:
            f.write('\n'.join(entry_points) + '\n')
        must(['opt-14', '-enable-new-pm=0', '-internalize', '-internalize-public-api-file=' + apifile, '-globaldce', linked, '-o', red + '.0'], 'opt internalize')
        must(['opt-14', '-O1', '-vectorize-loops=false', '-vectorize-slp=false', '-unroll-threshold=0', '-sink-common-insts=false', '-hoist-common-insts=false', red + '.0', '-o', red], 'opt -O1', timeout=1800)
        return red

    def build_native(self, uname):
        """native twin of the real code with every harness of the unit as entry point"""
        unit = self.units[uname]
        wd = os.path.join(self.work.dir, uname); os.makedirs(wd, exist_ok=True)
        entries_all = [h.fn for h in self.spec.HARNESSES if h.unit == uname]
        keep = ['main'] + ['__wrap_' + w for w in unit.wrap] + ['verif_' + w for w in unit.wrap]
        nred = self.link_bc(unit, 'native', wd, entries_all + keep)
        rt = os.path.join(wd, 'native_rt.o')
        must(['clang-14', '-O1', '-c', os.path.join(TOOLS, 'native_rt.c'), '-o', rt], 'native_rt')
        real = os.path.join(wd, 'real')
        must(['clang++-14', '-O1', nred, rt, '-o', real, '-rdynamic', '-ldl', '-w', '-Wl,--unresolved-symbols=ignore-all', '-Wl,-z,lazy'] + ['-Wl,--wrap=' + w for w in unit.wrap], 'native real link', timeout=1800)
        self.built.setdefault(uname, {}).update(wd=wd, real=real)
        return real

    def prescreen(self, uname, already):
        """Returns harness names of the unit whose native random runs show a failing (non-witness) assertion."""
        real = self.built[uname]['real']
        names = [h.fn for h in self.spec.HARNESSES if h.unit == uname and h.fn not in already and not h.known]
        seed0 = (self.seed * 7919 + 5) % (1 << 30)
        def one(fn):
            try:
                r = subprocess.run([real, fn, '--seeds', str(seed0), '250'], capture_output=True, text=True, timeout=120)
            except Exception:
                return None
            for l in r.stdout.split('\n'):
                if ' FAILED: ' in l and any(not p.strip().startswith('WITNESS:') for p in l.split(' FAILED: ')[1].split(' | ')):
                    return fn
            return None
        with ThreadPoolExecutor(max_workers=min(12, self.pool.jobs)) as ex:
            sus = [x for x in ex.map(one, names) if x]
        return len(names), sus

    def build_unit(self, uname, entries=None):
        unit = self.units[uname]
        wd = os.path.join(self.work.dir, uname); os.makedirs(wd, exist_ok=True)
        if entries is None:
            entries = [h.fn for h in self.spec.HARNESSES if h.unit == uname]
        self.built.setdefault(uname, {})['entries'] = list(entries)
        info = dict(name=uname, repo_units=[dict(file=r, sha1=sha1(os.path.join(REPO, r))) for r in unit.repo_units],
                    harness_sources=unit.harness, debug_asserts=unit.debug_asserts, stubs=unit.extra_c + unit.nobody)
        t0 = time.time()
        # --- symbolic side
        red = self.link_bc(unit, 'cbmc', wd, entries)
        ll = os.path.join(wd, 'unit.ll'); must(['llvm-dis-14', red, '-o', ll], 'llvm-dis')
        c = os.path.join(wd, 'unit.c'); rep = os.path.join(wd, 'ir2c.json')
        r = must([sys.executable, os.path.join(TOOLS, 'ir2c.py'), ll, c, '--nobody', ','.join(unit.nobody), '--report', rep], 'ir2c')
        report = json.load(open(rep))
        info['functions_encoded'] = report['defined']; info['external_decls'] = [d for d in report['declared'] if not d.startswith('llvm.')]
        info['untranslated'] = report['errors']
        info['symbolic_length_mem_calls'] = report.get('symbolic_length_mem_calls', [])
        info['ir_lines'] = sum(1 for _ in open(ll)); info['c_lines'] = sum(1 for _ in open(c))
        extra = [self.src_path(e) for e in unit.extra_c]
        gb = os.path.join(wd, 'unit.gb')
        must(['goto-cc', '-D__CPROVER__'] + ['-D' + d for d in unit.cbmc_defines + unit.c_defines] + ['-I' + INC, c] + extra + ['-o', gb], 'goto-cc', timeout=1800)
        # --- native twins
        real = self.built.get(uname, {}).get('real') or self.build_native(uname)
        xlat = os.path.join(wd, 'xlat')
        must(['clang-14', '-O1', '-w', '-I' + INC] + ['-D' + d for d in unit.c_defines] + [c] + extra + [os.path.join(TOOLS, 'native_rt.c'), '-o', xlat, '-rdynamic', '-ldl', '-Wl,--unresolved-symbols=ignore-all', '-Wl,-z,lazy'], 'native xlat build', timeout=1800)
        info['build_s'] = round(time.time() - t0, 1)
        self.built.setdefault(uname, {}).update(wd=wd, gb=gb, real=real, xlat=xlat, info=info)
        return info

    def build_san(self, uname):
        b = self.built[uname]
        if 'san' in b:
            return b['san']
        unit = self.units[uname]
        entries = self.built[uname].get('entries') or [h.fn for h in self.spec.HARNESSES if h.unit == uname]
        red = self.link_bc(unit, 'san', b['wd'], entries + ['main'] + ['__wrap_' + w for w in unit.wrap] + ['verif_' + w for w in unit.wrap])
        san = os.path.join(b['wd'], 'real_san')
        must(['clang++-14', '-O1', '-g', '-fsanitize=address,undefined', red, os.path.join(b['wd'], 'native_rt.o'), '-o', san, '-rdynamic', '-ldl', '-w', '-Wl,--unresolved-symbols=ignore-all', '-Wl,-z,lazy'] + ['-Wl,--wrap=' + w for w in unit.wrap], 'native san link', timeout=1800)
        b['san'] = san
        return san

    # ------------------------------------------------------------------ translator validation
    def validate(self, h):
        b = self.built[h.unit]
        n = h.validate_runs
        if n <= 0:
            return dict(runs=0, agree=0, nontrivial=0)
        seed0 = (self.seed * 1000003 + 17) % (1 << 40)
        ra = run([b['real'], h.fn, '--seeds', str(seed0), str(n)], timeout=300)
        rb = run([b['xlat'], h.fn, '--seeds', str(seed0), str(n)], timeout=300)
        la = [l for l in ra['out'].split('\n') if l.startswith('RUN ')]
        lb = [l for l in rb['out'].split('\n') if l.startswith('RUN ')]
        res = dict(runs=n, seed0=seed0, real_completed=len(la), xlat_completed=len(lb))
        agree = 0; nontrivial = 0; mism = []
        for x, y in zip(la, lb):
            if x == y:
                agree += 1
                if 'end=ok' in x:
                    nontrivial += 1
            else:
                mism.append((x, y))
        res.update(agree=agree, nontrivial=nontrivial, mismatches=[list(m) for m in mism[:3]])
        # native failures of non-witness assertions are reported as a hint; the solver run decides.
        res['native_assert_failures'] = len([l for l in la if ' FAILED: ' in l and any(not p.strip().startswith('WITNESS:') for p in l.split(' FAILED: ')[1].split(' | '))])
        if mism:
            res['status'] = 'MISMATCH'
        elif len(la) != n or len(lb) != n:
            # a crash of either twin on random inputs: not decisive for the translator, recorded
            res['status'] = 'INCOMPLETE'
            res['real_rc'] = ra['rc']; res['xlat_rc'] = rb['rc']; res['real_err'] = ra['err'][-500:]; res['xlat_err'] = rb['err'][-500:]
        else:
            res['status'] = 'OK'
        return res

    # ------------------------------------------------------------------ cbmc
    def cbmc_cmd(self, h, extra=()):
        b = self.built[h.unit]
        unwind = h.thorough_unwind if (self.tier == 'thorough' and h.thorough_unwind) else h.unwind
        cmd = ['cbmc', b['gb'], '--function', h.fn, '--unwind', str(unwind)] + CBMC_BASE
        if h.unwindset:
            cmd += ['--unwindset', h.unwindset]
        if h.object_bits:
            cmd += ['--object-bits', str(h.object_bits)]
        return cmd + h.flags + list(extra)

    PROP_RE = re.compile(r'^\[([^\]]+)\] (?:line (\d+) )?(.*): (SUCCESS|FAILURE|UNKNOWN|ERROR)$')

    def run_harness(self, h):
        res = dict(harness=h.fn, unit=h.unit, unwind=h.unwind, bounds=h.bounds, known=h.known)
        try:
            res['validation'] = self.validate(h)
        except Exception as e:
            res['validation'] = dict(status='ERROR', error=str(e)[:500])
        m = self.pool.acquire(h.mem_gb)
        try:
            r = run(self.cbmc_cmd(h, SLICE), timeout=h.timeout, mem_gb=h.mem_gb)
        finally:
            self.pool.release(m)
        res.update(wall_s=round(r['wall'], 2), rss_mb=r['rss_mb'], rc=r['rc'])
        out = r['out']
        props = []
        for ln in out.split('\n'):
            mm = self.PROP_RE.match(ln.strip())
            if mm:
                props.append(dict(id=mm.group(1), line=mm.group(2), desc=mm.group(3), status=mm.group(4)))
        res['n_properties'] = len(props)
        mm = re.search(r'Generated (\d+) VCC\(s\), (\d+) remaining after simplification', out)
        if mm:
            res['vccs'] = int(mm.group(1)); res['vccs_after_simplification'] = int(mm.group(2))
        mm = re.findall(r'Runtime Solver: ([\d.e+-]+)s', out)
        res['solver_s'] = round(sum(float(x) for x in mm), 2) if mm else None
        mm = re.search(r'(\d+) variables, (\d+) clauses', out)
        if mm:
            res['sat_vars'] = int(mm.group(1)); res['sat_clauses'] = int(mm.group(2))
        if r['timed_out']:
            res['verdict'] = 'INCONCLUSIVE'; res['why'] = 'timeout after %ds' % h.timeout; return res
        if 'VERIFICATION SUCCESSFUL' not in out and 'VERIFICATION FAILED' not in out:
            res['verdict'] = 'INCONCLUSIVE'; res['why'] = 'no verdict (rc=%s, rss=%sMB): %s' % (r['rc'], r['rss_mb'], (out[-800:] + r['err'][-800:]).replace('\n', ' / ')); return res
        wit = [p for p in props if p['desc'].startswith('WITNESS:')]
        unw = [p for p in props if 'unwinding assertion' in p['desc'] or p['desc'].startswith('recursion unwinding')]
        rest = [p for p in props if p not in wit and p not in unw]
        res['witnesses'] = {p['desc']: p['status'] for p in wit}
        res['obligations'] = len(rest); res['discharged'] = len([p for p in rest if p['status'] == 'SUCCESS'])
        res['sample_obligations'] = sorted(set(p['desc'] for p in rest if not p['desc'].startswith('dereference failure')))[:40]
        bad_unw = [p for p in unw if p['status'] != 'SUCCESS']
        if bad_unw:
            res['verdict'] = 'INCONCLUSIVE'; res['why'] = 'unwinding assertion failed: %s (bound %d too small)' % (bad_unw[0]['id'], h.unwind); return res
        nobody = [p for p in rest if p['status'] != 'SUCCESS' and p['desc'].startswith('no body for callee')]
        if nobody:
            res['verdict'] = 'INCONCLUSIVE'; res['why'] = 'harness reaches code that is not encoded: ' + ', '.join(sorted(set(p['desc'] for p in nobody)))[:600]; return res
        fails = [p for p in rest if p['status'] != 'SUCCESS']
        if not fails:
            # vacuity is only decided when nothing failed: a failing obligation that ends the path (trap, ASMJIT_ASSERT)
            # legitimately makes later witnesses unreachable
            if not wit:
                res['verdict'] = 'INCONCLUSIVE'; res['why'] = 'harness has no reachability witness'; return res
            vac = [p for p in wit if p['status'] != 'FAILURE']
            if vac:
                res['verdict'] = 'INCONCLUSIVE'; res['why'] = 'vacuous: witness %s not reachable' % vac[0]['desc']; return res
        res['failed'] = [dict(p) for p in fails]
        res['verdict'] = 'FAIL' if fails else 'PASS'
        return res

    # ------------------------------------------------------------------ counterexample -> replay
    def extract_stream(self, h, prop_id):
        # the unsliced trace run is 3-5x dearer than the sliced main run; it only happens when something fails
        big = min(h.mem_gb * 5, 30)
        m = self.pool.acquire(big)
        try:
            r = run(self.cbmc_cmd(h, ['--property', prop_id, '--trace']), timeout=h.timeout * 2, mem_gb=big)
        finally:
            self.pool.release(m)
        vals = []
        for ln in r['out'].split('\n'):
            mm = re.match(r'^\s*ND_VALUE=(\d+)', ln)
            if mm:
                vals.append(int(mm.group(1)))
        if 'VERIFICATION FAILED' not in r['out']:
            return None, r['out'][-2000:]
        return vals, r['out']

    def replay_stream(self, h, stream_path, san=True):
        exe = self.build_san(h.unit) if san else self.built[h.unit]['real']
        env_opts = 'ASAN_OPTIONS=detect_leaks=0:abort_on_error=0 UBSAN_OPTIONS=print_stacktrace=1:halt_on_error=0'
        r = run(['env'] + env_opts.split() + [exe, h.fn, '--stream', stream_path], timeout=120)
        return r

    def confirm(self, h, fail, rdir):
        """Replay a counterexample against the real code. Returns (confirmed, replay_path, detail)."""
        vals, trace = self.extract_stream(h, fail['id'])
        base = os.path.join(rdir, '%s.%s' % (h.fn, re.sub(r'[^A-Za-z0-9_.]', '_', fail['id'])))
        if vals is None:
            return False, None, 'could not regenerate counterexample trace'
        os.makedirs(rdir, exist_ok=True)
        spath = base + '.stream'
        with open(spath, 'w') as f:
            f.write(' '.join('0x%x' % v for v in vals) + '\n')
        with open(base + '.txt', 'w') as f:
            f.write('property=%s harness=%s unit=%s\nfailed: [%s] %s\nnondet stream (call order): %s\nreplay: ./check %s --replay %s --harness %s\n\n' % (
                self.pid, h.fn, h.unit, fail['id'], fail['desc'], ' '.join('0x%x' % v for v in vals), self.pid, spath, h.fn))
            f.write('---- cbmc trace (tail) ----\n' + trace[-20000:])
        r = self.replay_stream(h, spath, san=True)
        out = r['out'] + '\n' + r['err']
        with open(base + '.txt', 'a') as f:
            f.write('\n---- native replay (real code, ASan+UBSan) rc=%s ----\n%s' % (r['rc'], out[-20000:]))
        desc = fail['desc']
        confirmed = False; detail = ''
        if ('A 0 ' + desc) in r['out']:
            confirmed = True; detail = 'native harness assertion failed: ' + desc
        elif desc.startswith('ASMJIT_ASSERT') and ('Assertion failed' in out or 'assertion' in out.lower() and r['rc'] != 0):
            confirmed = True; detail = 'asmjit debug assertion fired natively'
        elif 'ERROR: AddressSanitizer' in out or 'runtime error:' in out or r['rc'] in (-11, -6, 139, 134, -4, 132):
            confirmed = True
            mm = re.search(r'(ERROR: AddressSanitizer[^\n]*|runtime error:[^\n]*)', out)
            detail = 'sanitizer/crash in native replay: ' + (mm.group(1) if mm else 'rc=%s' % r['rc'])
        else:
            detail = 'native replay did not reproduce (rc=%s); treated as encoding error' % r['rc']
        return confirmed, base + '.txt', detail

    # ------------------------------------------------------------------ main
    def selected(self):
        hs = []
        for h in self.spec.HARNESSES:
            if self.only and h.fn not in self.only:
                continue
            # companion harness of a finding that is no longer open (repaired): its input region is back in the main harness
            # (the `#if KF_<id>` exclusion there is off), the companion itself is not built
            if h.known and h.known not in self.known_open:
                continue
            if not self.only:
                if self.tier not in h.tiers:
                    continue
                if self.tier == 'quick' and h.rotate and (self.seed % h.rotate[1]) != h.rotate[0]:
                    continue
                if self.tier == 'thorough' and h.rotate_thorough and (self.seed % h.rotate_thorough[1]) != h.rotate_thorough[0]:
                    continue
            hs.append(h)
        return hs

    def execute(self):
        hs = self.selected()
        if not hs:
            raise BrokenCheck('no harness selected')
        unames = sorted(set(h.unit for h in hs))
        log('[%s] tier=%s seed=%d units=%s harnesses=%d work=%s' % (self.pid, self.tier, self.seed, unames, len(hs), self.work.dir))
        self.prescreen_info = {}
        if not self.only:
            byname = {h.fn: h for h in self.spec.HARNESSES}
            for u in unames:
                if not self.units[u].prescreen:
                    continue
                self.build_native(u)
                total, sus = self.prescreen(u, set(h.fn for h in hs))
                cap = 16 if self.tier == 'quick' else 64
                self.prescreen_info[u] = dict(harnesses_screened=total, suspects=len(sus), added=sus[:cap])
                log('[%s] unit %s: native pre-screen of %d harnesses on random operands: %d with a failing assertion, %d added to the solver work list' % (self.pid, u, total, len(sus), len(sus[:cap])))
                hs += [byname[n] for n in sus[:cap]]
        per_unit = {u: [h.fn for h in hs if h.unit == u] for u in unames}
        with ThreadPoolExecutor(max_workers=4) as ex:
            infos = list(ex.map(lambda u: self.build_unit(u, per_unit[u]), unames))
        for i in infos:
            log('[%s] unit %s: %d functions encoded, %d IR lines -> %d C lines, %d untranslated, build %.1fs' % (
                self.pid, i['name'], len(i['functions_encoded']), i['ir_lines'], i['c_lines'], len(i['untranslated']), i['build_s']))
        with ThreadPoolExecutor(max_workers=16) as ex:
            results = list(ex.map(self.run_harness, hs))
        return hs, infos, results


def load_spec(checkdir):
    sp = importlib.util.spec_from_file_location('spec', os.path.join(checkdir, 'spec.py'))
    mod = importlib.util.module_from_spec(sp)
    mod.Unit, mod.Harness = Unit, Harness
    sp.loader.exec_module(mod)
    return mod


def main(argv):
    import argparse
    ap = argparse.ArgumentParser()
    ap.add_argument('pid')
    ap.add_argument('--tier', default=os.environ.get('VERIF_TIER', 'quick'))
    ap.add_argument('--harness', action='append')
    ap.add_argument('--replay')
    ap.add_argument('--jobs', type=int)
    ap.add_argument('--build-only', action='store_true')
    a = ap.parse_args(argv)
    pid = a.pid
    tier = a.tier if a.tier in ('quick', 'thorough') else 'quick'
    seed = int(os.environ.get('VERIF_SEED', '0') or 0)
    checkdir = os.path.join(VERIF, 'checks', pid)
    t0 = time.time()
    evpath = os.path.join(os.environ.get('VERIF_EVIDENCE_DIR') or os.path.join(VERIF, 'evidence'), pid + '.json')   # VERIF_EVIDENCE_DIR: runs against seeded changes keep their evidence apart
    try:
        spec = load_spec(checkdir)
        chk = Check(pid, checkdir, spec, tier, seed, only=a.harness, jobs=a.jobs)
        if a.replay:
            if not a.harness:
                txt = open(a.replay.replace('.stream', '.txt')).read() if os.path.exists(a.replay.replace('.stream', '.txt')) else ''
                m = re.search(r'harness=(\S+)', txt)
                if not m:
                    raise BrokenCheck('--replay needs --harness')
                a.harness = [m.group(1)]; chk.only = a.harness
            h = [x for x in spec.HARNESSES if x.fn == a.harness[0]][0]
            chk.build_unit(h.unit, [h.fn])
            r = chk.replay_stream(h, a.replay, san=True)
            print(r['out']); print(r['err'])
            return 0
        if a.build_only:
            for u in sorted(set(h.unit for h in chk.selected())):
                print(chk.build_unit(u)['name'], chk.built[u]['gb'])
            return 0
        hs, infos, results = chk.execute()
    except BrokenCheck as e:
        log('[%s] BROKEN: %s' % (pid, e))
        return EXIT_BROKEN
    rdir = os.path.join(VERIF, 'replay', pid)
    violations = []; known_lines = []; broken = []
    for h, r in zip(hs, results):
        v = r.get('validation', {})
        log('[%s] %-44s %-12s %6.1fs %5dMB  obligations %s/%s  witnesses %s  xlat-validation %s (%s/%s agree, %s complete runs)' % (
            pid, h.fn, r['verdict'], r.get('wall_s', 0), r.get('rss_mb', 0), r.get('discharged', '-'), r.get('obligations', '-'),
            ','.join('%s' % k.replace('WITNESS:', '') for k in r.get('witnesses', {})) or '-', v.get('status'), v.get('agree'), v.get('runs'), v.get('nontrivial')))
        if v.get('status') == 'INCOMPLETE' and (v.get('real_completed', 0) == 0 or v.get('xlat_completed', 0) == 0):
            broken.append('%s: translator validation could not run (native twin produced no run: %s %s)' % (h.fn, v.get('real_err', '')[-200:], v.get('xlat_err', '')[-200:]))
        if v.get('status') in ('MISMATCH', 'ERROR'):
            broken.append('%s: translator validation %s: %s' % (h.fn, v.get('status'), json.dumps(v.get('mismatches') or v.get('error'))[:600]))
        if r['verdict'] == 'INCONCLUSIVE':
            broken.append('%s: %s' % (h.fn, r['why']))
        elif r['verdict'] == 'FAIL':
            kf = chk.known_open.get(h.known) if h.known else None
            todo = []
            for f in r['failed']:
                if kf and any(s in f['desc'] for s in kf.get('asserts', [])):
                    f['disposition'] = 'known-finding ' + h.known
                    continue
                todo.append(f)
            # replay at most 3 distinct counterexamples per harness (each costs one more solver run), in parallel
            def do_confirm(f, h=h):
                try:
                    return chk.confirm(h, f, rdir)
                except Exception as e:
                    return False, None, 'replay machinery failed: %s' % str(e)[:300]
            with ThreadPoolExecutor(max_workers=3) as ex:
                outs = list(ex.map(do_confirm, todo[:3]))
            for f, (ok, path, detail) in zip(todo[:3], outs):
                f['replay'] = path; f['replay_detail'] = detail; f['confirmed'] = ok
                if ok:
                    violations.append((h, f, path))
                else:
                    broken.append('%s: counterexample for [%s] %s not reproduced natively: %s (%s)' % (h.fn, f['id'], f['desc'], detail, path))
            for f in todo[3:]:
                f['replay_detail'] = 'not replayed (more than 3 failing assertions in this harness)'
                if not any(ok for (ok, _, _) in outs):
                    broken.append('%s: [%s] %s failed (not replayed)' % (h.fn, f['id'], f['desc']))
            if kf and any(f.get('disposition') for f in r['failed']):
                known_lines.append('KNOWN-FINDING: property=%s %s: %s' % (pid, h.known, kf['what']))
        if h.known and r['verdict'] == 'PASS' and h.known in chk.known_open:
            chk.notes.append('known finding %s no longer reproduces in %s (its region now satisfies the assertions)' % (h.known, h.fn))
    for ln in sorted(set(known_lines)):
        log(ln)
    for n in chk.notes:
        log('[%s] note: %s' % (pid, n))
    wall = time.time() - t0
    n_obl = sum(r.get('obligations', 0) for r in results); n_dis = sum(r.get('discharged', 0) for r in results)
    n_wit = sum(len(r.get('witnesses', {})) for r in results)
    samples = []
    for h, r in zip(hs, results):
        samples.append(dict(harness=h.fn, bounds=h.bounds, unwind=r.get('unwind'), verdict=r['verdict'], obligations=r.get('sample_obligations', [])[:12]))
    ev = dict(property_id=pid, tier=tier, seed=seed, level='model_checking', wall_s=round(wall, 1), violations=len(violations),
              coverage=dict(
                  evaluations=n_obl + n_wit,
                  distinct_nontrivial=len(set((r['harness'], d) for r in results if r['verdict'] in ('PASS', 'FAIL') for d in r.get('sample_obligations', []))),
                  rule='one evaluation = one assertion (property) of one harness decided by the SAT solver over all values of the harness\'s symbolic inputs within the stated bounds; '
                       'distinct_nontrivial counts distinct (harness, assertion text) pairs, other than generated pointer-dereference checks, in harnesses whose reachability witnesses were all reached',
                  samples=samples,
                  obligations=n_obl, discharged=n_dis, witnesses_required_to_fail=n_wit,
                  checker_cmd='cbmc <unit>.gb --function <harness> --unwind N ' + ' '.join(CBMC_BASE[:4]),
                  traces_validated_against_impl=sum((r.get('validation') or {}).get('agree', 0) for r in results),
                  explanation=getattr(spec, 'EXPLANATION', ''),
                  units=infos, harnesses=results,
                  outside_bounds=getattr(spec, 'OUTSIDE', []),
                  solver_s=round(sum(r.get('solver_s') or 0 for r in results), 1),
                  known_findings=known_lines, broken=broken, prescreen=getattr(chk, 'prescreen_info', {})),
              assumptions=getattr(spec, 'ASSUMPTIONS', []) + [
                  'clang 14 front end + opt -O1 produce IR faithful to the C++ source (UBSan traps are inserted before optimisation and are proof obligations)',
                  'tools/ir2c.py translation (validated on every run by running the real code and the generated C natively on identical random nondet streams)',
                  'CBMC 6.11 symbolic execution + SAT back end; --no-malloc-may-fail unless stated; LLVM poison shifts are not checked by CBMC (checked at source level by UBSan traps)'])
    os.makedirs(os.path.dirname(evpath), exist_ok=True)
    with open(evpath, 'w') as f:
        json.dump(ev, f, indent=1)
    if violations:
        for h, f_, path in violations:
            log('VIOLATION property=%s replay=%s' % (pid, path))
            log('  harness=%s assertion="%s" (%s)' % (h.fn, f_['desc'], f_['replay_detail']))
        return EXIT_VIOLATION
    if broken:
        for b in broken:
            log('[%s] BROKEN/INCONCLUSIVE: %s' % (pid, b))
        return EXIT_BROKEN
    log('[%s] OK: %d/%d obligations discharged in %d harnesses, %d witnesses reached, %.0fs' % (pid, n_dis, n_obl, len(hs), n_wit, wall))
    return EXIT_OK


if __name__ == '__main__':
    sys.exit(main(sys.argv[1:]))
