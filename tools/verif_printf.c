/* Model of the part of vsnprintf/snprintf that asmjit uses (%%, %c, %s, %d, %u, %zu, %0Nu / %Nu), shared by the solver
 * (goto-cc) and by the native `xlat` twin. The `real` twin calls libc's vsnprintf, so translator validation compares this model with
 * libc on every validated run. Anything else in a format string is reported as an unsupported-format obligation, never guessed.
 *
 * tools/ir2c.py routes `llvm.va_start` in a variadic function to `va_start(VERIF_VA_CUR, last)` and every call of vsnprintf to
 * verif_vsnprintf(buf, n, fmt), which reads the arguments from a copy of VERIF_VA_CUR (the variadic caller's frame is live then). */
#include <stdarg.h>
#include <stddef.h>
#include <stdint.h>
#include <string.h>

void __CPROVER_assert(_Bool c, const char* msg);
void __CPROVER_assume(_Bool c);

va_list VERIF_VA_CUR;

/* The text is assembled in a small local array (cheap for the solver even at symbolic positions) and handed to the caller's buffer by
 * one memcpy: the destination may be a large array (String::_op_vformat formats into char[1024] when the string is nearly full) at a
 * symbolic offset, where every single character write would be a separate array update. Longer outputs than VP_MAX are reported. */
#ifndef VP_MAX
#define VP_MAX 96   /* Unit(c_defines=['VP_MAX=<n>']) for harnesses that format longer texts */
#endif
#define VP_PUT(ch) do { if (pos < VP_MAX) out[pos] = (char)(ch); pos++; } while (0)

/* Decimal digits by repeated subtraction of powers of ten: no division (a /10 digit loop is the slow kernel for a SAT back end).
 * ndig = 10 for 32-bit arguments, 20 for size_t. */
static const uint64_t vp_pow10[20] = {1ull, 10ull, 100ull, 1000ull, 10000ull, 100000ull, 1000000ull, 10000000ull, 100000000ull, 1000000000ull,
  10000000000ull, 100000000000ull, 1000000000000ull, 10000000000000ull, 100000000000000ull, 1000000000000000ull, 10000000000000000ull,
  100000000000000000ull, 1000000000000000000ull, 10000000000000000000ull};
static size_t vp_udec(char* out, size_t pos, uint64_t v, unsigned width, int zero, unsigned ndig) {
  char tmp[20];
  unsigned nd = 1;   /* number of digits */
  for (unsigned k = ndig; k-- > 0;) {
    uint64_t p = vp_pow10[k];
    unsigned d = 0;
    for (unsigned j = 0; j < 9; j++) { if (v >= p) { v -= p; d++; } }
    tmp[k] = (char)('0' + d);
    if (d != 0 && nd == 1) nd = k + 1;
  }
  if (width) { for (unsigned w = nd; w < width; w++) VP_PUT(zero ? '0' : ' '); }
  /* the j-th character goes to pos + j: a concrete index whenever pos is one (only the value and the guard are symbolic) */
  for (unsigned j = 0; j < ndig; j++) { if (j < nd) { if (pos + j < VP_MAX) out[pos + j] = tmp[nd - 1 - j]; } }
  return pos + nd;
}

static int vp_format(char* buf, size_t n, const char* fmt, va_list ap) {
  char out[VP_MAX];
  size_t pos = 0;
  for (size_t i = 0; fmt[i] != '\0'; i++) {
    char c = fmt[i];
    if (c != '%') { VP_PUT(c); continue; }
    c = fmt[++i];
    int zero = 0; unsigned width = 0; int is_z = 0;
    if (c == '0') { zero = 1; c = fmt[++i]; }
    while (c >= '1' && c <= '9') { width = width * 10u + (unsigned)(c - '0'); c = fmt[++i]; }
    if (c == 'z') { is_z = 1; c = fmt[++i]; }
    if (c == '%') { VP_PUT('%'); }
    else if (c == 'c') { int ch = va_arg(ap, int); VP_PUT(ch); }
    else if (c == 's') {
      const char* s = va_arg(ap, const char*);
      for (size_t j = 0; s[j] != '\0'; j++) VP_PUT(s[j]);
    }
    else if (c == 'u') {
      uint64_t v = is_z ? (uint64_t)va_arg(ap, size_t) : (uint64_t)va_arg(ap, unsigned);
      pos = vp_udec(out, pos, v, width, zero, is_z ? 20u : 10u);
    }
    else if (c == 'd' && !is_z) {
      int v = va_arg(ap, int);
      uint64_t u = (uint64_t)(v < 0 ? -(int64_t)v : (int64_t)v);
      if (v < 0) VP_PUT('-');
      pos = vp_udec(out, pos, u, width, zero, 10u);
    }
    else {
      __CPROVER_assert(0, "verif_printf: unsupported format specifier");
      __CPROVER_assume(0);
    }
  }
  if (pos >= VP_MAX) { __CPROVER_assert(0, "verif_printf: output longer than the model's buffer"); __CPROVER_assume(0); }
  if (n) {
    size_t cnt = pos < n ? pos : n - 1;
    out[cnt] = '\0';
    for (size_t j = 0; j <= cnt; j++) buf[j] = out[j];   /* not memcpy: see VERIF_MEM_LOOPS in verif_prelude.h */
  }
  return (int)pos;
}

int verif_vsnprintf(char* buf, size_t n, const char* fmt) {
  va_list ap;
  va_copy(ap, VERIF_VA_CUR);
  int r = vp_format(buf, n, fmt, ap);
  va_end(ap);
  return r;
}

int verif_snprintf(char* buf, size_t n, const char* fmt, ...) {
  va_list ap;
  va_start(ap, fmt);
  int r = vp_format(buf, n, fmt, ap);
  va_end(ap);
  return r;
}
