#!/usr/bin/env python3
"""Prints the per-property status table from evidence/*.json (last quick run) and the specs (harness counts per tier)."""
import json, os, sys, glob
V = os.path.dirname(os.path.dirname(os.path.abspath(__file__)))
sys.path.insert(0, os.path.join(V, 'tools'))
import vlib
print('| property | quick: harnesses run / obligations discharged / witnesses | wall s (quick, this machine) | solver s | harnesses in spec (quick-eligible / thorough) | open known findings |')
print('|---|---|---|---|---|---|')
for f in sorted(glob.glob(os.path.join(V, 'evidence', '*.json'))):
    d = json.load(open(f)); c = d['coverage']; pid = d['property_id']
    try:
        spec = vlib.load_spec(os.path.join(V, 'checks', pid))
        nq = sum(1 for h in spec.HARNESSES if 'quick' in h.tiers); nt = sum(1 for h in spec.HARNESSES if 'thorough' in h.tiers)
    except Exception as e:
        nq = nt = '?'
    kf = sorted(set(k.split(' ')[2].rstrip(':') for k in c.get('known_findings', []) if k.startswith('KNOWN-FINDING')))
    print('| %s | %d / %d of %d / %d | %s | %s | %s / %s | %s |' % (pid, len(c.get('harnesses', [])), c.get('discharged', 0), c.get('obligations', 0), c.get('witnesses_required_to_fail', 0),
          d.get('wall_s'), c.get('solver_s'), nq, nt, ', '.join(kf) or '-'))
