#!/usr/bin/env python3
"""usage: record_seeded.py <ID> <n> <detected_by> <before:0|1> <strengthening or -> [verified-note]
Copies /tmp/mut/<ID>/out/m<n>.{diff,txt} + demo into /verif/seeded/<ID>-m<n>/ with meta.json."""
import sys, os, json, shutil
pid, n, det, before, strength = sys.argv[1:6]
note = sys.argv[6] if len(sys.argv) > 6 else None
src = '/tmp/mut/%s/out' % pid; dst = '/verif/seeded/%s-m%s' % (pid, n)
os.makedirs(dst, exist_ok=True)
shutil.copy(os.path.join(src, 'm%s.diff' % n), os.path.join(dst, 'patch.diff'))
shutil.copy(os.path.join(src, 'm%s_demo.cpp' % n), os.path.join(dst, 'demo.cpp'))
txt = open(os.path.join(src, 'm%s.txt' % n)).read()
open(os.path.join(dst, 'notes.txt'), 'w').write(txt)
meta = dict(property=pid, source='fresh sub-agent given only the property text and a scratch worktree',
            needs_to_manifest=' '.join(txt.split())[:700],
            verified=dict(compiles=True, existing_suite='ctest 10/10 passed with the change applied (re-run by me in the scratch worktree)',
                          demo='exit 1 with the change, exit 0 without (re-run by me)', how=note or 'tools: /tmp/mut/verify.sh <ID> (apply, cmake --build, demo, ctest -j3, revert)'),
            detected_by=det, detected_before_strengthening=bool(int(before)), strengthening=None if strength == '-' else strength,
            run='tools/mutrun.sh seeded/%s-m%s/patch.diff <check>  -> exit 1 with VIOLATION lines (replayed natively)' % (pid, n))
json.dump(meta, open(os.path.join(dst, 'meta.json'), 'w'), indent=1)
print('recorded', dst)
