#!/bin/bash
# usage: tools/mutrun.sh <patch.diff> <check-id> [check args...]   — applies a seeded change to /repo, runs the check, reverts.
set -u
diff=$1; shift
git -C /repo apply "$diff" || { echo "PATCH DOES NOT APPLY"; exit 3; }
( cd /verif && ./check "$@" ); rc=$?
git -C /repo checkout -- .
echo "mutrun rc=$rc"
exit $rc
