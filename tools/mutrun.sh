#!/bin/bash
# usage: tools/mutrun.sh <patch.diff> <check-id> [check args...]
# Runs a check against a seeded change. While other work is going on in /repo the change is applied to a scratch worktree of /repo's
# HEAD (VERIF_REPO points the runner at it; evidence goes to a scratch directory); with MUTRUN_INPLACE=1 it is applied to /repo itself
# and reverted straight afterwards, which is what a reviewer would do.
set -u
diff=$(readlink -f "$1"); shift
if [ "${MUTRUN_INPLACE:-0}" = 1 ]; then
  git -C /repo apply "$diff" || { echo "PATCH DOES NOT APPLY"; exit 3; }
  ( cd /verif && ./check "$@" ); rc=$?
  git -C /repo checkout -- .
else
  wt=${MUTRUN_WT:-/var/tmp/mutrepo.$$}
  git -C /repo worktree add --detach -f "$wt" HEAD >/dev/null 2>&1 || { echo "cannot create worktree"; exit 3; }
  if git -C "$wt" apply "$diff"; then
    ( cd /verif && VERIF_REPO="$wt" VERIF_EVIDENCE_DIR="${VERIF_WORK:-/var/tmp/vw}/mut-evidence" ./check "$@" ); rc=$?
  else echo "PATCH DOES NOT APPLY"; rc=3; fi
  git -C /repo worktree remove --force "$wt"
fi
echo "mutrun rc=$rc"
exit $rc
