#!/usr/bin/env python3
"""Refreshes the generated regions of DESIGN.md (findings, seeded changes)."""
import os, re, subprocess, sys
V = os.path.dirname(os.path.dirname(os.path.abspath(__file__)))
p = os.path.join(V, 'DESIGN.md'); s = open(p).read()
for tag, tool in (('findings', 'mkfindings.py'), ('seeded', 'mktable.py'), ('status', 'mkstatus.py')):
    out = subprocess.run([sys.executable, os.path.join(V, 'tools', tool)], capture_output=True, text=True).stdout
    s = re.sub(r'<!-- BEGIN:%s -->.*?<!-- END:%s -->' % (tag, tag), lambda m: '<!-- BEGIN:%s -->\n%s<!-- END:%s -->' % (tag, out, tag), s, flags=re.S)
open(p, 'w').write(s)
