// Linked into every unit (overrides the library's definition): asmjit's debug assertion becomes a harness event.
// Under CBMC the translator turns each call site into a proof obligation with the same message text.
#include <asmjit/core/globals.h>
#include <stdio.h>
#include "verif.h"
#if !defined(VERIF_CBMC)  // under CBMC the symbol stays external: the translator turns every call site into an obligation
ASMJIT_BEGIN_NAMESPACE
namespace DebugUtils {
void assertion_failure(const char* file, int line, const char* msg) noexcept {
  static char buf[256];
  const char* base = file;
  for (const char* p = file; *p; p++) if (*p == '/') base = p + 1;
  char expr[104]; size_t n = 0;
  for (; msg[n] && n < 100; n++) {
    char ch = msg[n];
    bool keep = (ch >= 'A' && ch <= 'Z') || (ch >= 'a' && ch <= 'z') || (ch >= '0' && ch <= '9') || strchr(" _.,:=<>()-", ch) != nullptr;
    expr[n] = keep ? ch : '_';
  }
  expr[n] = 0;
  snprintf(buf, sizeof buf, "ASMJIT_ASSERT(%s) at %s:%d", expr, base, line);
#if defined(VERIF_NATIVE)
  fprintf(stderr, "[asmjit] Assertion failed: %s\n", buf);
#endif
  __CPROVER_assert(false, buf);
  __CPROVER_assume(false);
  __builtin_unreachable();
}
}
ASMJIT_END_NAMESPACE
#endif
