// Shared AArch64 emit environment for harnesses: an a64::Assembler attached "by construction" to a CodeHolder with one
// text section and a fixed 32-byte buffer. State is built directly (drive the unit, not the program): CodeHolder::init /
// emitter attachment are the subject of C16, not of the encoding properties. Strict validation is left off: on this tree
// a64::InstInternal::validate is an empty TODO, so it cannot change any verdict.
#pragma once
#include <asmjit/a64.h>
#include <asmjit/core/codewriter_p.h>
#include <asmjit/core/emitterutils_p.h>
#include "verif.h"

namespace venv {
using namespace asmjit;

static constexpr size_t kBufSize = 32;
static constexpr uint64_t kBaseAddress = 0x0000000040000000ull;  // used only by make_asm(true): absolute code location

alignas(16) static unsigned char asm_mem[sizeof(a64::Assembler)];
alignas(16) static unsigned char code_mem[sizeof(CodeHolder)];
alignas(16) static unsigned char sect_mem[sizeof(Section)];
static uint8_t buf[kBufSize];
static int reports;
static Error last_reported;

static inline a64::Assembler* assembler() { return reinterpret_cast<a64::Assembler*>(asm_mem); }
static inline CodeHolder* holder() { return reinterpret_cast<CodeHolder*>(code_mem); }
static inline Section* text() { return reinterpret_cast<Section*>(sect_mem); }

// absolute: the CodeHolder has a known base address (kBaseAddress) so that `b #imm` style absolute targets are resolved
// by the assembler itself (EmitOp_DispImm) instead of through a relocation entry.
static inline a64::Assembler* make_asm(bool absolute = false) {
  a64::Assembler* a = assembler(); CodeHolder* c = holder(); Section* s = text();
  memset(asm_mem, 0, sizeof(asm_mem)); memset(code_mem, 0, sizeof(code_mem)); memset(sect_mem, 0, sizeof(sect_mem));
  memset(buf, 0xCC, sizeof(buf));
  reports = 0; last_reported = Error::kOk;
  a->_code = c; a->_section = s;
  a->_environment.init(Arch::kAArch64);
  a->_arch_mask = uint64_t(1) << uint32_t(Arch::kAArch64);  // as the constructor sets it
  a->_instruction_alignment = 4;                             // as a64::Assembler::on_attach sets it
  a->_buffer_data = buf; a->_buffer_ptr = buf; a->_buffer_end = buf + sizeof(buf);
  s->_buffer._data = buf; s->_buffer._capacity = sizeof(buf); s->_buffer._size = 0;
  c->_environment = a->_environment;
  c->_base_address = absolute ? kBaseAddress : Globals::kNoBaseAddress;
  return a;
}
static inline size_t emitted() { return size_t(assembler()->_buffer_ptr - buf); }
static inline uint32_t word(unsigned i) { return uint32_t(buf[4 * i]) | uint32_t(buf[4 * i + 1]) << 8 | uint32_t(buf[4 * i + 2]) << 16 | uint32_t(buf[4 * i + 3]) << 24; }
// true iff bytes [from, from+n) still hold the 0xCC fill
static inline bool untouched(unsigned from, unsigned n) { bool ok = true; for (unsigned i = 0; i < n; i++) ok = ok && buf[from + i] == 0xCC; return ok; }
}  // namespace venv

// Failure path without logging/formatting (the ASMJIT_NO_LOGGING branch of the real function): formatting is C20's subject.
ASMJIT_BEGIN_NAMESPACE
Error BaseEmitter::_report_error(Error err, const char*) { venv::reports++; venv::last_reported = err; return err; }
namespace EmitterUtils {
Error log_instruction_failed(BaseEmitter* self, Error err, InstId, InstOptions, const Operand_&, const Operand_&, const Operand_&, const Operand_*) {
  // _report_error directly: report_error() adds ASMJIT_ASSUME (llvm.assume), which the native twin of the generated C logs but the real twin does not
  self->reset_state(); return self->_report_error(err);
}
}
ASMJIT_END_NAMESPACE
