// Harness-side declarations. Harnesses are C++17 translation units compiled (a) by clang to LLVM IR and
// translated to C for CBMC, (b) natively against the real library for replay / translator validation.
#pragma once
#include <stdint.h>
#include <stddef.h>
#include <string.h>

extern "C" {
void __CPROVER_assume(bool);
void __CPROVER_assert(bool, const char*);
uint64_t nondet_u64();
uint32_t nondet_u32();
uint16_t nondet_u16();
uint8_t nondet_u8();
bool nondet_bool();
// Values the native twins log and compare (translator validation); a no-op under CBMC.
void verif_observe(uint64_t);
}

#define V_ASSERT(c, msg) __CPROVER_assert((c), msg)
#define V_ASSUME(c) __CPROVER_assume((c))
// Reachability witness: must come back FAILED from the solver, otherwise the harness is vacuous.
#define V_WITNESS(label) __CPROVER_assert(false, "WITNESS:" label)
#define HARNESS extern "C" __attribute__((noinline)) void

static inline void v_observe_bytes(const uint8_t* p, size_t n) { for (size_t i = 0; i < n; i++) verif_observe(p[i]); }
