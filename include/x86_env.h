// Shared x86 emit environment for harnesses: an x86::Assembler attached "by construction" to a CodeHolder with one
// text section and a fixed 64-byte buffer. State is built directly (drive the unit, not the program): CodeHolder::init /
// emitter attachment are the subject of C16, not of the encoding properties.
#pragma once
#include <asmjit/x86.h>
#include <asmjit/core/codewriter_p.h>
#include <asmjit/core/emitterutils_p.h>
#include <asmjit/x86/x86instapi_p.h>
#include "verif.h"

namespace venv {
using namespace asmjit;

// Typed storage without running constructors (a byte array reinterpreted as the class would force CBMC into byte-level
// reasoning for every field access).
template<typename T> union Raw { T v; Raw() noexcept {} ~Raw() noexcept {} };
static Raw<x86::Assembler> asm_store;
static Raw<CodeHolder> code_store;
static Raw<Section> sect_store;
static uint8_t buf[64];
static int reports;
static Error last_reported;
static int n_logged;   // calls of the (stubbed) instruction logger
static bool state_cleared_at_report;   // was the one-shot state already cleared when the error reached the handler? (a throwing handler never returns)

static inline x86::Assembler* assembler() { return &asm_store.v; }
static inline CodeHolder* holder() { return &code_store.v; }
static inline Section* text() { return &sect_store.v; }

// x64: 64-bit mode; validate: strict validation (DiagnosticOptions::kValidateAssembler) on.
static inline x86::Assembler* make_asm(bool x64, bool validate) {
  x86::Assembler* a = assembler(); CodeHolder* c = holder(); Section* s = text();
  memset((void*)&asm_store, 0, sizeof(asm_store)); memset((void*)&code_store, 0, sizeof(code_store)); memset((void*)&sect_store, 0, sizeof(sect_store));
  memset(buf, 0xCC, sizeof(buf));
  reports = 0; last_reported = Error::kOk; n_logged = 0;
  a->_code = c; a->_section = s;
  a->_emitter_type = EmitterType::kAssembler;
  c->_attached_first = a; c->_attached_last = a;   // as CodeHolder::attach() links the emitter
  a->_environment.init(x64 ? Arch::kX64 : Arch::kX86);
  a->_arch_mask = (uint64_t(1) << uint32_t(Arch::kX86)) | (uint64_t(1) << uint32_t(Arch::kX64));  // as the constructor sets it
  a->_forced_inst_options = x64 ? InstOptions::kNone : InstOptions::kX86_InvalidRex;
  if (validate) {
    a->_forced_inst_options |= InstOptions::kReserved;
    a->_diagnostic_options = DiagnosticOptions::kValidateAssembler;
  }
  a->_funcs.validate = x64 ? x86::InstInternal::validate_x64 : x86::InstInternal::validate_x86;
  a->_private_data = x64 ? 0x80 : 0x40;  // address-override mask, as x86::Assembler::on_attach sets it
  a->_buffer_data = buf; a->_buffer_ptr = buf; a->_buffer_end = buf + sizeof(buf);
  s->_buffer._data = buf; s->_buffer._capacity = sizeof(buf); s->_buffer._size = 0;
  c->_environment = a->_environment;
  c->_base_address = Globals::kNoBaseAddress;
  return a;
}
static inline size_t emitted() { return size_t(assembler()->_buffer_ptr - buf); }
}  // namespace venv

// Failure path without logging/formatting (the ASMJIT_NO_LOGGING branch of the real function): formatting is C20's subject.
ASMJIT_BEGIN_NAMESPACE
Error BaseEmitter::_report_error(Error err, const char*) {
  venv::reports++; venv::last_reported = err;
  venv::state_cleared_at_report = uint32_t(_inst_options) == 0 && !_extra_reg.is_reg() && _inline_comment == nullptr;
  return err;
}
namespace EmitterUtils {
#ifndef VENV_REAL_FAILURE_PATH   // define it to link the real EmitterUtils::log_instruction_failed (core/emitterutils.cpp)
Error log_instruction_failed(BaseEmitter* self, Error err, InstId, InstOptions, const Operand_&, const Operand_&, const Operand_&, const Operand_*) {
  self->reset_state(); return self->report_error(err);
}
#endif
#ifndef VENV_REAL_FAILURE_PATH
// Logging of an emitted instruction is text formatting (C20); here it only counts.
void log_instruction_emitted(BaseAssembler*, InstId, InstOptions, const Operand_&, const Operand_&, const Operand_&, const Operand_*, uint32_t, uint32_t, uint8_t*) { venv::n_logged++; }
#endif
}
ASMJIT_END_NAMESPACE
