// Shared CodeHolder environment for the section/label/relocation checks (C10, C04, C03): a CodeHolder whose section table,
// label table, relocation table and buffers are built directly in static storage (drive the unit, not the program:
// CodeHolder::init / attach are the subject of C16). Everything the real code then touches is ordinary CodeHolder state.
#pragma once
#include <asmjit/core.h>
#include <asmjit/core/codewriter_p.h>
#include "verif.h"

namespace chenv {
using namespace asmjit;

constexpr uint32_t kMaxSections = 4;
constexpr uint32_t kBufCap = 32;
constexpr uint32_t kMaxLabels = 4;
constexpr uint32_t kMaxRelocs = 3;

// Typed storage without running constructors/destructors (a byte array accessed through casts costs the solver a
// byte-level model of every field access).
union HolderBox { CodeHolder c; HolderBox() noexcept {} ~HolderBox() noexcept {} };
static HolderBox code_mem;
static Section sect_mem[kMaxSections];  // [0] unused: section 0 is CodeHolder::_text_section
// The two section tables. CBMC models memmove/memcpy with a *symbolic* length exactly only on byte arrays (on pointer-typed
// arrays it havocs the destination): a harness that reaches ArenaVector::insert_unchecked (new_section) defines
// CHENV_BYTE_TABLES before including this file; everything else uses the cheaper pointer-typed tables.
#ifdef CHENV_BYTE_TABLES
alignas(8) static uint8_t by_id_raw[(kMaxSections + 1) * sizeof(Section*)];
alignas(8) static uint8_t by_order_raw[(kMaxSections + 1) * sizeof(Section*)];
static inline Section** by_id() { return reinterpret_cast<Section**>(by_id_raw); }
static inline Section** by_order() { return reinterpret_cast<Section**>(by_order_raw); }
#else
static Section* by_id_tab[kMaxSections + 1];
static Section* by_order_tab[kMaxSections + 1];
static inline Section** by_id() { return by_id_tab; }
static inline Section** by_order() { return by_order_tab; }
#endif
// One byte array per section buffer (not a 2-D array: CBMC models a memset/memcpy with a symbolic length exactly only when the
// destination object itself is an array of bytes).
static uint8_t sbuf0[kBufCap], sbuf1[kBufCap], sbuf2[kBufCap], sbuf3[kBufCap];
struct SectionBuffers { inline uint8_t* operator[](uint32_t i) const { return i == 0 ? sbuf0 : i == 1 ? sbuf1 : i == 2 ? sbuf2 : sbuf3; } };
static const SectionBuffers sbuf{};   // sbuf[i] is the buffer of section i, sbuf[i][j] byte j of it
static LabelEntry label_tab[kMaxLabels + 1];
static RelocEntry* reloc_tab[kMaxRelocs + 1];
static RelocEntry reloc_mem[kMaxRelocs];
alignas(16) static uint8_t arena_block[1024];
// Same content as CodeHolder_shared_label_extra_data (file-local in codeholder.cpp): unbound anonymous label.
static LabelEntry::ExtraData shared_extra;

static inline CodeHolder* holder() { return &code_mem.c; }
static inline Section* sec(uint32_t i) { return i == 0 ? &holder()->_text_section : &sect_mem[i]; }

// Aim the arena cursor at a static block. The block end is set to the highest address ("unbounded block"): the generated C
// compares `cursor + size > end` as integers, which the symbolic executor can only decide against a constant; a real end pointer
// makes it walk the (infeasible) refill path on every allocation and turns every allocated pointer into a two-way choice.
// Running off the static block is still caught: the block is an object of its own (pointer checks).
static inline void set_arena(void* p, size_t) { holder()->_arena._ptr = static_cast<uint8_t*>(p); holder()->_arena._end = reinterpret_cast<uint8_t*>(~uintptr_t(0)); }

// n sections with ids 0..n-1, laid out in `_sections_by_order` in id order (callers permute / re-order as needed).
// Section 0 is the built-in .text (order INT_MIN, alignment 0, offset 0) exactly as CodeHolder_add_text_section creates it;
// the others look like the result of new_section (alignment 1, order 0, no offset). Buffers: 32 bytes capacity, size 0.
static inline CodeHolder* make_holder(Arch arch, uint32_t n) {
  CodeHolder* c = holder();
#if !defined(VERIF_CBMC)
  // Native twins run many streams in one process. Under CBMC every object below is still in its zero-initialised static
  // state when the (single) harness call starts, and a memset over typed objects would cost the solver a byte-level model.
  memset(&code_mem, 0, sizeof(code_mem)); memset(sect_mem, 0, sizeof(sect_mem)); memset(sbuf0, 0, kBufCap); memset(sbuf1, 0, kBufCap); memset(sbuf2, 0, kBufCap); memset(sbuf3, 0, kBufCap);
  memset(label_tab, 0, sizeof(label_tab)); memset(reloc_mem, 0, sizeof(reloc_mem));
#endif
  c->_environment.init(arch);
  c->_fixups = nullptr; c->_unresolved_fixup_count = 0; c->_fixup_data_pool._data = nullptr;
  c->_address_table_section = nullptr; c->_address_table_entries._root = nullptr; c->_attached_first = nullptr; c->_attached_last = nullptr;
  c->_base_address = Globals::kNoBaseAddress;
  set_arena(arena_block, sizeof(arena_block));
  shared_extra._section_id = Globals::kInvalidId; shared_extra._parent_id = Globals::kInvalidId;
  shared_extra._internal_label_type = LabelType::kAnonymous; shared_extra._internal_label_flags = LabelFlags::kNone;
  shared_extra._internal_uint16_data = 0; shared_extra._name_size = 0;
  for (uint32_t i = 0; i < kMaxSections; i++) {
    Section* s = sec(i);
    s->_section_id = i;
    s->_alignment = i == 0 ? 0u : 1u;
    s->_order = i == 0 ? INT32_MIN : 0;
    s->_offset = i == 0 ? 0 : Globals::kNoSectionOffset;
    s->_virtual_size = 0;
    s->_buffer._data = sbuf[i]; s->_buffer._size = 0; s->_buffer._capacity = kBufCap;
    by_id()[i] = s; by_order()[i] = s;
  }
  by_id()[kMaxSections] = nullptr; by_order()[kMaxSections] = nullptr;
  c->_sections._data = by_id(); c->_sections._size = n; c->_sections._capacity = kMaxSections + 1;
  c->_sections_by_order._data = by_order(); c->_sections_by_order._size = n; c->_sections_by_order._capacity = kMaxSections + 1;
  c->_label_entries._data = label_tab; c->_label_entries._size = 0; c->_label_entries._capacity = kMaxLabels + 1;
  c->_relocations._data = reloc_tab; c->_relocations._size = 0; c->_relocations._capacity = kMaxRelocs + 1;
  return c;
}

// An unbound anonymous label (what new_label_id appends).
static inline uint32_t add_label() {
  CodeHolder* c = holder(); uint32_t id = c->_label_entries._size;
  label_tab[id]._object_data = &shared_extra; label_tab[id]._offset_or_fixups = 0;
  c->_label_entries._size = id + 1;
  return id;
}
// A label bound to section `sid` at `off` (state after bind_label of an anonymous label).
static inline uint32_t add_bound_label(uint32_t sid, uint64_t off) {
  uint32_t id = add_label();
  label_tab[id]._object_data = sec(sid); label_tab[id]._offset_or_fixups = off;
  return id;
}
// A relocation entry as new_reloc_entry creates it (fields then set by the caller like the back ends do).
static inline RelocEntry* add_reloc(RelocType type) {
  CodeHolder* c = holder(); uint32_t id = c->_relocations._size;
  RelocEntry* re = &reloc_mem[id];
  re->_id = id; re->_reloc_type = type; re->_format = OffsetFormat{};
  re->_source_section_id = Globals::kInvalidId; re->_target_section_id = Globals::kInvalidId;
  re->_source_offset = 0; re->_payload = 0;
  reloc_tab[id] = re; c->_relocations._size = id + 1;
  return re;
}

// Re-state a value that the solver can prove but the symbolic executor cannot see (it merges the paths of the call that produced it):
// the equality is a proof obligation, the assignment of the constant is then a no-op that makes loops / switches over it concrete.
#define V_CONCRETIZE(lvalue, constant, msg) do { V_ASSERT((lvalue) == (constant), msg); (lvalue) = (constant); } while (0)

// Witnesses reached inside template instantiations: the runner keys witnesses by text, so several instances of one text would
// shadow each other. Instantiations record a bit; the (single) harness function emits each witness once at its end.
static uint32_t wit_mask;
#define V_WITNESS_MARK(bit) (chenv::wit_mask |= (1u << (bit)))
#define V_WITNESS_EMIT(bit, label) do { if (chenv::wit_mask & (1u << (bit))) V_WITNESS(label); } while (0)

static inline uint64_t load_le(const uint8_t* p, uint32_t n) { uint64_t v = 0; for (uint32_t i = 0; i < n; i++) v |= uint64_t(p[i]) << (8 * i); return v; }
static inline int64_t sext(uint64_t v, uint32_t bits) { return bits >= 64 ? int64_t(v) : int64_t(v << (64 - bits)) >> (64 - bits); }
static inline uint64_t lsb_mask(uint32_t n) { return n >= 64 ? ~0ull : ((1ull << n) - 1); }
}  // namespace chenv

// Arena / vector / buffer growth entry points. The harness tables have spare capacity, the arena cursor points at a static block
// and the section buffers have room, so none of these is reachable; each stub is a proof obligation saying so. They are
// "transparent" (report success, change nothing observable): the generated C compares pointers as integers, which the symbolic
// executor cannot decide, so it also walks the infeasible growth paths - a stub that returned an error there would make table
// sizes symbolic (early return with fewer entries) and an undefined external would hand out a wild pointer.
alignas(16) static uint8_t arena_spare[128];
ASMJIT_BEGIN_NAMESPACE
void* Arena::_alloc_oneshot(size_t) noexcept { V_ASSERT(false, "stub reached: Arena _alloc_oneshot (static arena block exhausted)"); return ::arena_spare; }
Error ArenaVectorBase::_reserve_additional(Arena&, size_t, ItemSize<true>) noexcept { V_ASSERT(false, "stub reached: ArenaVector growth (pow2 item)"); return Error::kOk; }
Error ArenaVectorBase::_reserve_additional(Arena&, size_t, ItemSize<false>) noexcept { V_ASSERT(false, "stub reached: ArenaVector growth"); return Error::kOk; }
#ifndef CHENV_REAL_GROW_BUFFER
Error CodeHolder::grow_buffer(CodeBuffer*, size_t) noexcept { V_ASSERT(false, "stub reached: CodeHolder grow_buffer (buffer growth is C15)"); return Error::kOk; }
#endif
ASMJIT_END_NAMESPACE
