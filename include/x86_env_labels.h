// Extension of x86_env.h: a holder with up to 2 labels (one bound in .text at a symbolic offset, one unbound) and
// counting stubs for the CodeHolder services _emit may call. The stubs record *that* a fixup / relocation / address
// table entry was requested; their real implementations are the subject of C03/C04/C15.
#pragma once
#include "x86_env.h"

namespace venv {
static LabelEntry label_storage[2];
static LabelEntry::ExtraData unbound_extra;
static int n_fixups, n_relocs, n_addrtab;
static RelocEntry* reloc_ptrs[4];
alignas(16) static unsigned char fixup_mem[sizeof(Fixup)];
alignas(16) static unsigned char reloc_mem[sizeof(RelocEntry)];

// label 0: bound to .text at `bound_offset`; label 1: unbound, no pending fixups. count may be 0..2.
static inline void setup_labels(uint32_t count, uint64_t bound_offset) {
  CodeHolder* c = holder();
  memset(&unbound_extra, 0, sizeof(unbound_extra));
  unbound_extra._section_id = Globals::kInvalidId; unbound_extra._parent_id = Globals::kInvalidId;
  label_storage[0]._object_data = text(); label_storage[0]._offset_or_fixups = bound_offset;
  label_storage[1]._object_data = &unbound_extra; label_storage[1]._offset_or_fixups = 0;
  c->_label_entries._data = label_storage; c->_label_entries._size = count; c->_label_entries._capacity = 2;
  // room for relocations so that ArenaVector::reserve_additional() succeeds without growing (growth is C15/C18)
  c->_relocations._data = reloc_ptrs; c->_relocations._size = 0; c->_relocations._capacity = 4;
  n_fixups = n_relocs = n_addrtab = 0;
}
}  // namespace venv

ASMJIT_BEGIN_NAMESPACE
Fixup* CodeHolder::new_fixup(LabelEntry& le, uint32_t section_id, size_t offset, intptr_t rel, const OffsetFormat& format) noexcept {
  venv::n_fixups++;
  Fixup* f = reinterpret_cast<Fixup*>(venv::fixup_mem);
  f->next = nullptr; f->section_id = section_id; f->label_or_reloc_id = Globals::kInvalidId; f->offset = offset; f->rel = rel; f->format = format;
  return f;
}
Error CodeHolder::new_reloc_entry(Out<RelocEntry*> dst, RelocType reloc_type) noexcept {
  venv::n_relocs++;
  RelocEntry* re = reinterpret_cast<RelocEntry*>(venv::reloc_mem);
  memset(re, 0, sizeof(RelocEntry));
  re->_id = 0; re->_reloc_type = reloc_type; re->_source_section_id = Globals::kInvalidId; re->_target_section_id = Globals::kInvalidId;
  *dst = re;
  return Error::kOk;
}
Error CodeHolder::add_address_to_address_table(uint64_t address) noexcept { venv::n_addrtab++; return Error::kOk; }
ASMJIT_END_NAMESPACE
