// libc-level fault injection for C15 harnesses: include in the harness TU and list the wrapped symbols in the Unit
// (wrap=['malloc', 'realloc']). Under CBMC the translator routes every other function's malloc/realloc call to
// verif_malloc / verif_realloc; natively ld --wrap does the same. `libc_fault::may_fail` switches failures on.
#pragma once
#include <stdlib.h>
#include "verif.h"
namespace libc_fault { static bool may_fail = false; static int n_failed = 0, n_calls = 0; }
extern "C" {
#if defined(VERIF_NATIVE)
void* __real_malloc(size_t); void* __real_realloc(void*, size_t);
#define LIBC_REAL_MALLOC __real_malloc
#define LIBC_REAL_REALLOC __real_realloc
#else
#define LIBC_REAL_MALLOC malloc
#define LIBC_REAL_REALLOC realloc
#endif
__attribute__((noinline, used)) void* verif_malloc(size_t n) {
  libc_fault::n_calls++;
  if (libc_fault::may_fail && nondet_bool()) { libc_fault::n_failed++; return nullptr; }
  void* p = LIBC_REAL_MALLOC(n); __CPROVER_assume(p != nullptr); return p;
}
__attribute__((noinline, used)) void* verif_realloc(void* q, size_t n) {
  libc_fault::n_calls++;
  if (libc_fault::may_fail && nondet_bool()) { libc_fault::n_failed++; return nullptr; }
  void* p = LIBC_REAL_REALLOC(q, n); __CPROVER_assume(p != nullptr); return p;
}
#if defined(VERIF_NATIVE)
void* __wrap_malloc(size_t n) { return verif_malloc(n); }
void* __wrap_realloc(void* q, size_t n) { return verif_realloc(q, n); }
#endif
}
