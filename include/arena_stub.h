// malloc-backed replacement of asmjit::Arena's out-of-line functions for harnesses in which the arena is *environment*
// (its own behaviour is C18's subject). Every request becomes one malloc; nothing is pooled; reset() forgets (the harness
// scope ends right after). With `arena_stub::fail_next` the stub returns nullptr (C15 harnesses).
// Include in the harness TU and do NOT link asmjit/support/arena.cpp.
#pragma once
#include <asmjit/core.h>
#include <stdlib.h>
#include "verif.h"

namespace arena_stub { static bool may_fail = false; static int n_allocs = 0, n_failed = 0; }

ASMJIT_BEGIN_NAMESPACE
void Arena::_init(size_t min_block_size, Span<uint8_t> static_arena_memory) noexcept {
  memset(this, 0, sizeof(*this));
  _min_block_size_shift = 10; _max_block_size_shift = 16;
}
void Arena::reset(ResetPolicy) noexcept { _ptr = nullptr; _end = nullptr; memset(_reusable_slots, 0, sizeof(_reusable_slots)); }
static inline void* arena_stub_alloc(size_t size, bool zero) {
  arena_stub::n_allocs++;
  if (arena_stub::may_fail && nondet_bool()) { arena_stub::n_failed++; return nullptr; }
  // Round the request up to a few concrete size classes: a symbolic allocation size is what makes CBMC's memory model
  // explode. (Over-allocation can hide an overrun inside the class; overruns are C15/C18's subject, not the users' of this stub.)
  size_t cap = size <= 128 ? 128 : size <= 512 ? 512 : size <= 4096 ? 4096 : size;
  void* p = malloc(cap);
  __CPROVER_assume(p != nullptr);
  if (zero) memset(p, 0, size);
  return p;
}
void* Arena::_alloc_oneshot(size_t size) noexcept { return arena_stub_alloc(size, false); }
void* Arena::_alloc_oneshot_zeroed(size_t size) noexcept { return arena_stub_alloc(size, true); }
void* Arena::_alloc_reusable(size_t size, Out<size_t> allocated_size) noexcept { allocated_size = size; return arena_stub_alloc(size, false); }
void* Arena::_alloc_reusable_zeroed(size_t size, Out<size_t> allocated_size) noexcept { allocated_size = size; return arena_stub_alloc(size, true); }
void Arena::_release_dynamic(void* p, size_t) noexcept { (void)p; }
void* Arena::dup(const void* data, size_t size, bool null_terminate) noexcept {
  if (!data || !size) return nullptr;
  uint8_t* p = static_cast<uint8_t*>(arena_stub_alloc(size + (null_terminate ? 1 : 0), false));
  if (!p) return nullptr;
  memcpy(p, data, size);
  if (null_terminate) p[size] = 0;
  return p;
}
ASMJIT_END_NAMESPACE
