// "No allocation happens here" as a checked side condition: include in the harness TU and list wrap=['malloc', 'realloc'] in the Unit.
// While no_heap::active is set every malloc/realloc of the code under test returns NULL and is counted; the harness asserts
// no_heap::n_calls == 0 (and that the operation succeeded). For the solver this removes every heap object from the points-to sets of the
// writes that follow (a String that might grow otherwise makes each later write a case split over all the buffers it might have moved to);
// if the code did need to allocate, the operation fails and the assertions report it - nothing is hidden.
#pragma once
#include <stdlib.h>
#include "verif.h"
namespace no_heap { static bool active = false; static int n_calls = 0; }
extern "C" {
#if defined(VERIF_NATIVE)
void* __real_malloc(size_t); void* __real_realloc(void*, size_t);
#define NOHEAP_REAL_MALLOC __real_malloc
#define NOHEAP_REAL_REALLOC __real_realloc
#else
#define NOHEAP_REAL_MALLOC malloc
#define NOHEAP_REAL_REALLOC realloc
#endif
__attribute__((noinline, used)) void* verif_malloc(size_t n) {
  if (no_heap::active) { no_heap::n_calls++; return nullptr; }
  void* p = NOHEAP_REAL_MALLOC(n); __CPROVER_assume(p != nullptr); return p;
}
__attribute__((noinline, used)) void* verif_realloc(void* q, size_t n) {
  if (no_heap::active) { no_heap::n_calls++; return nullptr; }
  void* p = NOHEAP_REAL_REALLOC(q, n); __CPROVER_assume(p != nullptr); return p;
}
#if defined(VERIF_NATIVE)
void* __wrap_malloc(size_t n) { return verif_malloc(n); }
void* __wrap_realloc(void* q, size_t n) { return verif_realloc(q, n); }
#endif
}
